"""
Translator (data): regenerate lean/Pyxv/Generated/Tables.lean from /repo's *current*
working tree.  Run in a fresh interpreter on every check run; the Lean proofs that talk
about table contents (`decide` facts) are then re-checked against what the code says now.

Only literals are translated (dicts, tuples, sets, strings, booleans, ints); no logic.
"""

import ast
import inspect
import re
import sys
from pathlib import Path

REPO = Path(__import__("os").environ.get("PYXFORM_REPO", "/repo"))
sys.path.insert(0, str(REPO))


def q(s: str) -> str:
    out = ['"']
    for ch in s:
        o = ord(ch)
        if ch == '"':
            out.append('\\"')
        elif ch == "\\":
            out.append("\\\\")
        elif ch == "\n":
            out.append("\\n")
        elif ch == "\t":
            out.append("\\t")
        elif ch == "\r":
            out.append("\\r")
        elif o < 32 or o == 127:
            out.append("\\x%02x" % o)
        else:
            out.append(ch)
    out.append('"')
    return "".join(out)


def lst(items) -> str:
    items = list(items)
    if not items:
        return "[]"
    return "[\n    " + ",\n    ".join(items) + "]"


def dict_ss(name, d, doc=""):
    return f"/-- {doc or name} -/\ndef {name} : List (String × String) := " + lst(
        f"({q(str(k))}, {q(str(v))})" for k, v in d.items()
    )


def dict_sl(name, d, doc=""):
    """str -> str | tuple[str]  (as a list of strings)"""
    rows = []
    for k, v in d.items():
        vs = [v] if isinstance(v, str) else list(v)
        rows.append(f"({q(str(k))}, [" + ", ".join(q(str(x)) for x in vs) + "])")
    return f"/-- {doc or name} -/\ndef {name} : List (String × List String) := " + lst(rows)


def dict_sb(name, d, doc=""):
    return f"/-- {doc or name} -/\ndef {name} : List (String × Bool) := " + lst(
        f"({q(str(k))}, {'true' if v else 'false'})" for k, v in d.items()
    )


def set_s(name, s, doc=""):
    return f"/-- {doc or name} (a Python set: sorted here) -/\ndef {name} : List String := " + lst(
        q(str(x)) for x in sorted(s)
    )


def list_s(name, s, doc=""):
    return f"/-- {doc or name} -/\ndef {name} : List String := " + lst(q(str(x)) for x in s)


def str_c(name, s, doc=""):
    return f"/-- {doc or name} -/\ndef {name} : String := {q(s)}"


def nat_c(name, n, doc=""):
    return f"/-- {doc or name} -/\ndef {name} : Nat := {int(n)}"



def c18_tables():
    """C18: literals of check_xform / check_java_available / _call_validator / ErrorCleaner /
    xls2xform_convert / main_cli, read from the ASTs of the current source; and the character class of
    ERROR_MESSAGE_REGEX's path segments, probed on the compiled regex over every code point."""
    import textwrap

    import pyxform.validators.error_cleaner as ec
    import pyxform.validators.odk_validate as ov
    import pyxform.xls2xform as xx

    def fn(obj):
        obj = getattr(obj, "__func__", obj)
        return ast.parse(textwrap.dedent(inspect.getsource(obj))).body[0]

    def doc_of(node):
        return ast.get_docstring(node, clean=False)

    def strs(node):
        d = doc_of(node)
        out = []
        for sub in ast.walk(node):
            if isinstance(sub, ast.Constant) and isinstance(sub.value, str) and sub.value != d:
                out.append((getattr(sub, "lineno", 0), getattr(sub, "col_offset", 0), sub.value))
        return [v for _, _, v in sorted(out)]

    def call_args(node, attr):
        """string literals passed as first argument of calls `<x>.<attr>(…)`, in source order"""
        out = []
        for sub in ast.walk(node):
            if isinstance(sub, ast.Call) and isinstance(sub.func, ast.Attribute) and sub.func.attr == attr and sub.args:
                a = sub.args[0]
                vals = []
                for c in ast.walk(a):
                    if isinstance(c, ast.Constant) and isinstance(c.value, str):
                        vals.append((c.lineno, c.col_offset, c.value))
                out.append((sub.lineno, sub.col_offset, [v for _, _, v in sorted(vals)]))
        return [v for _, _, v in sorted(out)]

    parts = []
    cx = fn(ov.check_xform)
    parts.append(list_s("c18CheckXformStrings", strs(cx), "string literals of odk_validate.check_xform in source order (timeout, errors prefix, warnings prefix, bad return code)"))
    cj = strs(fn(ov.check_java_available))
    parts.append(str_c("c18JavaMissingMsg", max(cj, key=len) if cj else "", "odk_validate.check_java_available: message of the OSError"))
    cv = fn(ov._call_validator)
    ints = [c.value for c in ast.walk(cv) if isinstance(c, ast.Constant) and isinstance(c.value, int) and not isinstance(c.value, bool)]
    parts.append(nat_c("c18ValidatorTimeout", ints[0] if ints else 0, "odk_validate._call_validator: watchdog seconds"))
    parts.append(list_s("c18ValidatorCommand", strs(cv), "odk_validate._call_validator: literal part of the command line"))
    # error cleaner
    regs = {"ERROR_MESSAGE_REGEX": ec.ERROR_MESSAGE_REGEX.pattern, "flags": str(int(ec.ERROR_MESSAGE_REGEX.flags))}
    parts.append(dict_ss("c18CleanerRegex", regs, "error_cleaner.ERROR_MESSAGE_REGEX source and flags"))
    seg = []
    rx = ec.ERROR_MESSAGE_REGEX
    for cp in range(0x110000):
        if 0xD800 <= cp <= 0xDFFF:
            continue
        if rx.fullmatch("/a/" + chr(cp)):
            seg.append(cp)
    ranges = []
    for cp in seg:
        if ranges and ranges[-1][1] == cp - 1:
            ranges[-1][1] = cp
        else:
            ranges.append([cp, cp])
    parts.append("/-- code points accepted as a path-segment character by ERROR_MESSAGE_REGEX (probed: fullmatch('/a/'+c) over every "
                 "code point), as inclusive ranges -/\n"
                 "def c18SegRanges : List (Nat × Nat) := [" + ", ".join(f"({a}, {b})" for a, b in ranges) + "]")
    # Python's own notions of line boundary (str.splitlines) and blank (str.strip), probed over every code point
    lbs, blanks = [], []
    for cp in range(0x110000):
        if 0xD800 <= cp <= 0xDFFF:
            continue
        ch = chr(cp)
        if len(("a" + ch + "b").splitlines()) == 2:
            lbs.append(cp)
        if ch.strip() == "":
            blanks.append(cp)
    parts.append("/-- code points at which str.splitlines() breaks a line (probed) -/\ndef c18LineBreaks : List Nat := ["
                 + ", ".join(map(str, lbs)) + "]")
    parts.append("/-- code points str.strip() removes (probed) -/\ndef c18StripBlanks : List Nat := [" + ", ".join(map(str, blanks)) + "]")
    probes = {
        "two_segments_needed": rx.fullmatch("/ab") is None and rx.fullmatch("/a/b") is not None,
        "greedy_all_segments": (rx.search("x /a/b/c/d y") or [""])[0] == "/a/b/c/d",
        "no_trailing_slash": (rx.search("/a/b/ ") or [""])[0] == "/a/b",
        "leftmost": (rx.search("//a/b") or [""])[0] == "/a/b",
    }
    parts.append(dict_sb("c18RegexShape", probes, "shape probes of ERROR_MESSAGE_REGEX (the Lean scanner assumes all four)"))
    rt = fn(ec.ErrorCleaner._replace_xpath_with_tokens)
    sw = call_args(rt, "startswith")
    ew = call_args(rt, "endswith")
    parts.append(list_s("c18KeepPrefixes", sw[0] if sw else [], "ErrorCleaner._replace_xpath_with_tokens: matches starting with one of these are kept"))
    parts.append(list_s("c18KeepSuffixes", ew[0] if ew else [], "… or ending with one of these"))
    rj = fn(ec.ErrorCleaner._remove_java_content)
    parts.append(list_s("c18NoiseMarkers", list(dict.fromkeys(a[0] for a in call_args(rj, "find") if a)), "ErrorCleaner._remove_java_content: a line containing one of these is dropped"))
    parts.append(list_s("c18ExcPrefixes", [a[0] for a in call_args(rj, "startswith") if a], "ErrorCleaner._remove_java_content: exception-name prefixes removed (in this order)"))
    ovf = fn(ec.ErrorCleaner.odk_validate)
    phrase = ""
    for sub in ast.walk(ovf):
        if isinstance(sub, ast.Compare) and any(isinstance(o, ast.In) for o in sub.ops) and isinstance(sub.left, ast.Constant):
            phrase = sub.left.value
    parts.append(str_c("c18JarfilePhrase", phrase, "ErrorCleaner.odk_validate: message containing this is returned unchanged"))
    # xls2xform_convert / main_cli
    xc = strs(fn(xx.xls2xform_convert))
    parts.append(str_c("c18ItemsetsName", next((s for s in xc if s.endswith(".csv")), ""), "xls2xform_convert: file name of the external choices csv"))
    parts.append(str_c("c18ItemsetsLog", next((s for s in xc if "%s" in s), ""), "xls2xform_convert: log format"))
    mc = fn(xx.main_cli)
    codes, msgs = [], []
    for sub in ast.walk(mc):
        if isinstance(sub, ast.Assign) and len(sub.targets) == 1 and isinstance(sub.targets[0], ast.Subscript):
            t = sub.targets[0]
            key = t.slice.value if isinstance(t.slice, ast.Constant) else None
            if isinstance(sub.value, ast.Constant):
                if key == "code" and isinstance(sub.value.value, int):
                    codes.append((sub.lineno, sub.value.value))
                if key == "message" and isinstance(sub.value.value, str):
                    msgs.append((sub.lineno, sub.value.value))
    parts.append("/-- main_cli: integers assigned to response[\"code\"], in source order (ok, ok with warnings, failure) -/\n"
                 "def c18CliCodes : List Nat := [" + ", ".join(str(v) for _, v in sorted(codes)) + "]")
    parts.append(list_s("c18CliMessages", [v for _, v in sorted(msgs)], "main_cli: strings assigned to response[\"message\"]"))
    # has_external_choices / containers
    from pyxform import builder as _builder
    from pyxform import constants as _const
    parts.append(str_c("c18TypeKey", _const.TYPE, "constants.TYPE"))
    parts.append(str_c("c18ChildrenKey", _const.CHILDREN, "constants.CHILDREN"))
    parts.append(str_c("c18SelectOneExternal", _const.SELECT_ONE_EXTERNAL, "constants.SELECT_ONE_EXTERNAL"))
    parts.append(list_s("c18SectionTypes", list(_builder.SECTION_CLASSES), "keys of builder.SECTION_CLASSES"))
    parts.append(str_c("c18LoopType", _const.LOOP, "constants.LOOP (the container the builder handles outside SECTION_CLASSES)"))
    handlers = []
    for sub in ast.walk(mc):
        if isinstance(sub, ast.ExceptHandler) and isinstance(sub.type, ast.Name) and sub.type.id != "Exception":
            lit = call_args(sub, "exception")
            unl = any(isinstance(c, ast.Call) and isinstance(c.func, ast.Attribute) and c.func.attr in ("unlink", "remove") for c in ast.walk(sub))
            handlers.append((sub.lineno, sub.type.id, lit[0][0] if lit and lit[0] else "", unl))
    parts.append("/-- main_cli (plain mode): except handlers in source order: (exception class, logged text, unlinks the output) -/\n"
                 "def c18PlainHandlers : List (String × String × Bool) := " + lst(
                     f"({q(n)}, {q(t)}, {'true' if u else 'false'})" for _, n, t, u in sorted(handlers)))
    parts.append(list_s("c18PlainWarnLog", [a[0] for a in call_args(mc, "warning") if a], "main_cli: literal logger.warning texts"))
    parts.append(list_s("c18PlainInfoLog", [a[0] for a in call_args(mc, "info") if a], "main_cli: literal logger.info texts"))
    return parts


def c03_sites():
    """C03: every call site of `insert_xpaths` (and of `insert_output_values`, the label-side entry) in the
    pyxform package, read from the AST of the current source files: (file, Class.function, text argument,
    context argument, use_current, reference_parent), arguments as source text after binding them to the
    parameters of the current signature (a flag left out shows the signature's default).  Source order."""
    pkg = REPO / "pyxform"
    sigs = {}
    sv = ast.parse((pkg / "survey.py").read_text())
    for cls in sv.body:
        if isinstance(cls, ast.ClassDef) and cls.name == "Survey":
            for fn in cls.body:
                if isinstance(fn, ast.FunctionDef) and fn.name in ("insert_xpaths", "insert_output_values", "_var_repl_function"):
                    params = [a.arg for a in fn.args.args][1:]
                    defaults = [None] * (len(params) - len(fn.args.defaults)) + [ast.unparse(d) for d in fn.args.defaults]
                    sigs[fn.name] = list(zip(params, defaults))
    for need in ("insert_xpaths", "insert_output_values", "_var_repl_function"):
        if need not in sigs:
            raise SystemExit(f"translator: Survey.{need} not found")
    sites = {"insert_xpaths": [], "insert_output_values": [], "_var_repl_function": []}

    def walk(node, scope, rel):
        for ch in ast.iter_child_nodes(node):
            sc = scope
            if isinstance(ch, (ast.ClassDef, ast.FunctionDef, ast.AsyncFunctionDef)):
                sc = scope + [ch.name]
            if isinstance(ch, ast.Call) and isinstance(ch.func, ast.Attribute) and ch.func.attr in sites:
                sig = sigs[ch.func.attr]
                bound = {n: d for n, d in sig}
                for (n, _d), a in zip(sig, ch.args):
                    bound[n] = ast.unparse(a)
                for kw in ch.keywords:
                    bound[kw.arg if kw.arg is not None else "**"] = ast.unparse(kw.value)
                sites[ch.func.attr].append((rel, ".".join(sc), [str(bound.get(n)) for n, _d in sig]))
            walk(ch, sc, rel)

    for f in sorted(pkg.rglob("*.py")):
        walk(ast.parse(f.read_text()), [], str(f.relative_to(pkg)))
    out = []
    for name, lean in (("insert_xpaths", "insertXpathsSites"), ("insert_output_values", "insertOutputValuesSites"),
                       ("_var_repl_function", "varReplSites")):
        out.append(
            f"/-- C03: the call sites of `{name}` in the pyxform package (file, scope, then one source text per parameter "
            f"{[n for n, _ in sigs[name]]}; an argument left out shows the default of the signature) -/\n"
            f"def {lean} : List (String × String × List String) := "
            + lst(f"({q(a)}, {q(b)}, [{', '.join(q(x) for x in c)}])" for a, b, c in sites[name]))
    return out


def main(out_path: str):
    from pyxform import aliases, constants
    from pyxform import question_type_dictionary as qtd
    from pyxform import utils, xls2json_backends, survey_element, question, section, survey
    from pyxform.entities import entity_declaration
    from pyxform.parsing import expression, sheet_headers
    from pyxform.validators.pyxform import sheet_misspellings  # noqa: F401

    parts = [
        "/-! GENERATED by harness/translate_tables.py from /repo's working tree. Do not edit. -/",
        "namespace Pyxv.Gen",
    ]
    A = aliases
    parts += [
        dict_ss("aliasControl", A.control, "aliases.control"),
        dict_ss("aliasSelect", A.select, "aliases.select"),
        dict_ss("aliasSelectFromFile", A.select_from_file, "aliases.select_from_file"),
        dict_ss("aliasSettingsHeader", A.settings_header, "aliases.settings_header"),
        dict_sl("aliasSurveyHeader", A.survey_header, "aliases.survey_header"),
        dict_ss("aliasEntitiesHeader", A.entities_header, "aliases.entities_header"),
        dict_sl("aliasListHeader", A.list_header, "aliases.list_header"),
        dict_sl("translatableSurveyColumns", A.TRANSLATABLE_SURVEY_COLUMNS),
        dict_sl("translatableChoicesColumns", A.TRANSLATABLE_CHOICES_COLUMNS),
        dict_ss("typeAliasMap", A._type_alias_map, "aliases._type_alias_map"),
        dict_sb("yesNo", A.yes_no, "aliases.yes_no"),
        dict_ss("bindingConversions", A.BINDING_CONVERSIONS, "aliases.BINDING_CONVERSIONS"),
        list_s("labelOptionalTypes", A.label_optional_types),
    ]
    C = constants
    parts += [
        dict_ss("nsmap", C.NSMAP, "constants.NSMAP"),
        set_s("supportedSheetNames", C.SUPPORTED_SHEET_NAMES),
        set_s("externalInstances", C.EXTERNAL_INSTANCES),
        set_s("convertibleBindAttributes", C.CONVERTIBLE_BIND_ATTRIBUTES),
        set_s("supportedMediaTypes", C.SUPPORTED_MEDIA_TYPES),
        set_s("externalInstanceExtensions", C.EXTERNAL_INSTANCE_EXTENSIONS),
        set_s("deprecatedDeviceIdFields", C.DEPRECATED_DEVICE_ID_METADATA_FIELDS),
        dict_ss("orOtherChoice", C.OR_OTHER_CHOICE),
        list_s("entityColumns", [e.value for e in C.EntityColumns]),
        str_c("rowFormatString", C.ROW_FORMAT_STRING),
        str_c("defaultFormName", C.DEFAULT_FORM_NAME),
        str_c("defaultLanguageValue", C.DEFAULT_LANGUAGE_VALUE),
        str_c("currentXformsVersion", C.CURRENT_XFORMS_VERSION),
        str_c("entitiesOfflineVersion", C.ENTITIES_OFFLINE_VERSION),
        str_c("selectOrOtherSuffix", C.SELECT_OR_OTHER_SUFFIX),
    ]
    # question type table: type -> [(section, key, value)], section "" for plain string values
    rows = []
    for t, entry in qtd.QUESTION_TYPE_DICT.items():
        triples = []
        for k, v in entry.items():
            if isinstance(v, dict):
                for a, b in v.items():
                    triples.append(f"({q(k)}, {q(str(a))}, {q(str(b))})")
            else:
                triples.append(f"({q('')}, {q(k)}, {q(str(v))})")
        rows.append(f"({q(t)}, [" + ", ".join(triples) + "])")
    parts.append(
        "/-- question_type_dictionary.QUESTION_TYPE_DICT: type ↦ [(section, key, value)] -/\n"
        "def questionTypes : List (String × List (String × String × String)) := " + lst(rows)
    )
    # slot tuples
    parts += [
        list_s("surveyElementFields", survey_element.SURVEY_ELEMENT_FIELDS),
        list_s("questionFields", question.QUESTION_FIELDS),
        list_s("sectionFields", section.SECTION_FIELDS),
        list_s("surveyFields", survey.SURVEY_FIELDS),
    ]
    # text substitution tables
    parts += [
        dict_ss("xmlTextSubs", utils.XML_TEXT_SUBS, "utils.XML_TEXT_SUBS"),
    ]
    # lexer rules (names, order, regex sources)
    rules = expression.get_lexer_rules() if hasattr(expression, "get_lexer_rules") else {}
    parts.append(dict_ss("lexerRules", rules, "parsing.expression.get_lexer_rules() (ordered)"))
    # regex sources
    regs = {
        "BRACKETED_TAG_REGEX": utils.BRACKETED_TAG_REGEX.pattern,
        "PYXFORM_REFERENCE_REGEX": utils.PYXFORM_REFERENCE_REGEX.pattern,
        "INVALID_XFORM_TAG_REGEXP": utils.INVALID_XFORM_TAG_REGEXP.pattern,
    }
    import pyxform.xls2json as x2j

    for name in dir(x2j):
        v = getattr(x2j, name)
        if isinstance(v, re.Pattern):
            regs["xls2json." + name] = v.pattern
    for name in dir(survey):
        v = getattr(survey, name)
        if isinstance(v, re.Pattern):
            regs["survey." + name] = v.pattern
    for name in dir(sheet_headers):
        v = getattr(sheet_headers, name)
        if isinstance(v, re.Pattern):
            regs["sheet_headers." + name] = v.pattern
    parts.append(dict_ss("regexSources", regs, "sources of module-level compiled regexes"))

    # numeric literals pulled from function sources / signatures
    def default_of(fn, param):
        return inspect.signature(fn).parameters[param].default

    nums = {}
    try:
        src = inspect.getsource(xls2json_backends)
        tree = ast.parse(src)
        for node in ast.walk(tree):
            if isinstance(node, ast.FunctionDef) and node.name in (
                "get_excel_column_headers",
                "get_excel_rows",
            ):
                for sub in ast.walk(node):
                    if isinstance(sub, ast.Constant) and isinstance(sub.value, int) and not isinstance(sub.value, bool) and sub.value > 1:
                        nums[node.name] = max(nums.get(node.name, 0), sub.value)
    except Exception as e:  # noqa: BLE001
        raise SystemExit(f"translator: cannot read empty-run limits: {e}")
    parts.append(nat_c("maxEmptyHeaderRun", nums.get("get_excel_column_headers", 0), "xls2json_backends.get_excel_column_headers: adjacent empty columns limit"))
    parts.append(nat_c("maxEmptyRowRun", nums.get("get_excel_rows", 0), "xls2json_backends.get_excel_rows: adjacent empty rows limit"))
    # lru_cache sizes
    caches = {}
    for modname in ("pyxform.utils", "pyxform.survey", "pyxform.parsing.expression", "pyxform.xls2json"):
        mod = sys.modules.get(modname) or __import__(modname, fromlist=["x"])
        for name in dir(mod):
            v = getattr(mod, name)
            if hasattr(v, "cache_parameters") and getattr(v, "__module__", None) == modname:
                caches[f"{modname.split('.', 1)[1]}.{name}"] = str(v.cache_parameters()["maxsize"])
    parts.append(dict_ss("lruCacheSizes", dict(sorted(caches.items())), "functools.lru_cache maxsize per cached function"))

    # ---- C18: literals of the validator / CLI state machine (pulled from the function ASTs)
    parts += c18_tables()
    parts += [list_s("selectQuestionFields", question.SELECT_QUESTION_FIELDS), list_s("optionFields", question.OPTION_FIELDS)]  # C08: header_columns of the survey / choices sheets
    # C14: required-header sets passed to dealias_and_group_headers (literals inside workbook_to_json)
    req = {}
    for node in ast.walk(ast.parse(inspect.getsource(x2j))):
        if isinstance(node, ast.Call):
            kws = {k.arg: k.value for k in node.keywords if k.arg}
            if "headers_required" in kws and isinstance(kws["headers_required"], ast.Set | ast.List | ast.Tuple):
                sheet = kws.get("sheet_name")
                sheet = getattr(constants, sheet.attr) if isinstance(sheet, ast.Attribute) else f"call@{node.lineno}"
                req[str(sheet)] = sorted(
                    getattr(constants, e.attr) if isinstance(e, ast.Attribute) else str(ast.literal_eval(e))
                    for e in kws["headers_required"].elts
                )
    parts.append(dict_sl("requiredHeaders", req, "headers_required sets in xls2json.workbook_to_json (sorted)"))
    # C05: header columns of the survey sheet and the smart-quote table of clean_text_values
    parts.append(list_s("selectQuestionFields", question.MultipleChoiceQuestion.get_slot_names(), "question.MultipleChoiceQuestion.get_slot_names() (header_columns of the survey sheet)"))
    parts.append(dict_ss("smartQuotes", x2j.SMART_QUOTES, "xls2json.SMART_QUOTES"))
    # C09: itemset value/label refs (constants.EXTERNAL_CHOICES_ITEMSET_REF_*), last-saved instance name
    parts.append(dict_ss("itemsetRefs", {"value": constants.EXTERNAL_CHOICES_ITEMSET_REF_VALUE, "label": constants.EXTERNAL_CHOICES_ITEMSET_REF_LABEL, "value_geojson": constants.EXTERNAL_CHOICES_ITEMSET_REF_VALUE_GEOJSON, "label_geojson": constants.EXTERNAL_CHOICES_ITEMSET_REF_LABEL_GEOJSON, "last_saved": utils.LAST_SAVED_INSTANCE_NAME}, "constants.EXTERNAL_CHOICES_ITEMSET_REF_* and utils.LAST_SAVED_INSTANCE_NAME"))
    parts += __import__("translate_entities").parts()  # C19: entity decision functions (AST → IR)
    parts.append(dict_ss("smartQuotes", x2j.SMART_QUOTES, "xls2json.SMART_QUOTES (clean_text_values)"))
    # C20: expected columns of the survey / choices sheets (header_columns of dealias_and_group_headers)
    parts += [
        set_s("surveyHeaderColumns", question.MultipleChoiceQuestion.get_slot_names(), "MultipleChoiceQuestion.get_slot_names()"),
        set_s("choicesHeaderColumns", question.Option.get_slot_names(), "Option.get_slot_names()"),
    ]
    # C20: the subtag reader at the table boundaries.  For each IANA subtag file: the first / last / shortest /
    # longest entries (per an independent reading of the file: split on newlines, strip) and near misses of them
    # (truncations, extensions) ↦ (file, code, member per that reading, member per the implementation's read_tags).
    from pyxform.validators.pyxform.iana_subtags import validation as _iana

    _rows = []
    for _fn in ("iana_subtags_2_characters.txt", "iana_subtags_3_or_more_characters.txt"):
        _text = (Path(_iana.__file__).parent / _fn).read_text(encoding="utf-8")
        _own = [x.strip() for x in _text.split("\n") if x.strip()]
        _ownset = set(_own)
        _bylen = sorted(_own, key=len)
        _members = list(dict.fromkeys(_own[:2] + _own[-2:] + _bylen[:2] + _bylen[-2:]))
        _cands = list(_members)
        for _m in _members:
            _cands += [_m[:-1], _m[1:], _m + "x", _m + _m[-1], _m.upper()]
        _read = _iana.read_tags(_fn)
        for _c in dict.fromkeys(c for c in _cands if c):
            _rows.append(f"({q(_fn)}, {q(_c)}, {'true' if _c in _ownset else 'false'}, {'true' if _c in _read else 'false'})")
        _rows.append(f"({q(_fn)}, {q('#count')}, true, {'true' if len(_read) == len(_ownset) else 'false'})")
    parts.append(
        "/-- iana_subtags: (file, code, member per an independent reading of the file, member per read_tags) at the table boundaries -/\n"
        "def ianaBoundary : List (String × String × Bool × Bool) := " + lst(_rows)
    )
    # C10 / lexer: the two string-set literals of utils.default_is_dynamic (hyphen types, dynamic token names)
    _sets = [
        [e.value for e in n.elts]
        for n in ast.walk(ast.parse(inspect.getsource(utils.default_is_dynamic)))
        if isinstance(n, ast.Set) and all(isinstance(e, ast.Constant) and isinstance(e.value, str) for e in n.elts)
    ]
    _hy = [x for x in _sets if "date" in x]
    _dy = [x for x in _sets if "OPS_MATH" in x]
    _ov = [x for x in _sets if "OPS_MATH" not in x and "date" not in x]
    parts.append(list_s("defaultHyphenTypes", _hy[0] if len(_hy) == 1 else [], "utils.default_is_dynamic: data types whose literal '-' is not an operator"))
    parts.append(list_s("defaultDynamicTokenNames", _dy[0] if len(_dy) == 1 else [], "utils.default_is_dynamic: lexer rule names that make a default dynamic"))
    parts.append(list_s("defaultHyphenOverrideNames", _ov[0] if len(_ov) == 1 else [], "utils.default_is_dynamic: token names that keep a hyphenated date/geo default dynamic (d989f12)"))
    # C12: container backends (dataclass fields, parser order, regex sources)
    import dataclasses as _dc
    parts.append(list_s("definitionDataFields", [f.name for f in _dc.fields(xls2json_backends.DefinitionData)], "xls2json_backends.DefinitionData field names, in order"))
    parts.append(list_s("fileTypeOrder", [t.value for t in xls2json_backends.SupportedFileTypes.get_processors()], "SupportedFileTypes.get_processors() keys, in order"))
    parts.append(dict_ss("backendRegexSources", {n: getattr(xls2json_backends, n).pattern for n in dir(xls2json_backends) if isinstance(getattr(xls2json_backends, n), re.Pattern)}, "module-level regexes of xls2json_backends"))
    # ---- C13 (Pyxv.Spell): header column sets per sheet, smart quotes, whitespace regex source
    from pyxform.question import MultipleChoiceQuestion as _MCQ, Option as _Opt
    from pyxform.survey import Survey as _Sv
    from pyxform.entities.entity_declaration import EntityDeclaration as _ED

    parts += [
        set_s("headerColumnsSurvey", set(_MCQ.get_slot_names()), "set(MultipleChoiceQuestion.get_slot_names())"),
        set_s("headerColumnsChoices", set(_Opt.get_slot_names()), "set(Option.get_slot_names())"),
        set_s("headerColumnsSettings", set(_Sv.get_slot_names()), "set(Survey.get_slot_names())"),
        set_s("headerColumnsEntities", {*_ED.get_slot_names(), *(i.value for i in constants.EntityColumns.value_list())},
              "entities sheet header_columns"),
        dict_ss("smartQuotes", x2j.SMART_QUOTES, "xls2json.SMART_QUOTES"),
        str_c("reWhitespace", xls2json_backends.RE_WHITESPACE.pattern, "xls2json_backends.RE_WHITESPACE"),
    ]
    # ---- C04 controls (Pyxv.Controls): control classes per tag, constants used by the parameter blocks
    from pyxform import builder as _bld
    from pyxform.question import Question as _Q

    parts.append(
        "/-- builder.QUESTION_CLASSES: control tag ↦ (class name, overrides Question.build_xml) -/\n"
        "def questionClasses : List (String × String × Bool) := "
        + lst(f"({q(k)}, {q(v.__name__)}, {'true' if v.build_xml is not _Q.build_xml else 'false'})" for k, v in _bld.QUESTION_CLASSES.items())
    )
    parts.append(dict_ss("c04Consts", {n: getattr(constants, n) for n in (
        "AUDIO_QUALITY_VOICE_ONLY", "AUDIO_QUALITY_LOW", "AUDIO_QUALITY_NORMAL", "AUDIO_QUALITY_EXTERNAL",
        "FIELD_LIST", "TABLE_LIST", "LIST_NOLABEL")}, "constants used by the parameter / appearance blocks of workbook_to_json"))
    parts.append(list_s("xmlReservedNamespaces", sorted(getattr(utils, "XML_RESERVED_NAMESPACES", ())), "utils.XML_RESERVED_NAMESPACES (validate_xml_document; empty before the C01-reserved-namespace-names fix)"))
    # C01: constants of validate_xml_document / get_nsmap that the Assemble model writes by hand — pinned by decide facts
    parts.append(list_s("xmlReservedPrefixes", sorted(getattr(utils, "XML_RESERVED_PREFIXES", ())), "utils.XML_RESERVED_PREFIXES (a frozenset: sorted here)"))
    _re_inv = getattr(utils, "INVALID_XML_CHAR_REGEX", None)
    parts.append("/-- code points of the source of utils.INVALID_XML_CHAR_REGEX (`[^…]`: a negated class of single characters and ranges) -/\n"
                 "def invalidXmlCharRegexCodes : List Nat := " + lst(str(ord(c)) for c in (_re_inv.pattern if _re_inv is not None else "")))
    def _entities_literal():
        import ast, inspect, textwrap
        from pyxform.survey import Survey as _S
        try:
            tree = ast.parse(textwrap.dedent(inspect.getsource(_S.get_nsmap)))
        except Exception:  # noqa: BLE001
            return ""
        lits = [n.value for n in ast.walk(tree) if isinstance(n, ast.Constant) and isinstance(n.value, str) and "entities=" in n.value]
        return lits[0] if len(lits) == 1 else ""
    parts.append(str_c("entitiesNsLiteral", _entities_literal(), "the string literal Survey.get_nsmap appends to the namespaces setting (from the function's AST)"))
    # C05: parameter vocabularies the bind slice used to carry as hand-written lists
    from pyxform.validators.pyxform import parameters_generic as _pg
    parts.append(list_s("audioQualityValues", [C.AUDIO_QUALITY_VOICE_ONLY, C.AUDIO_QUALITY_LOW, C.AUDIO_QUALITY_NORMAL, C.AUDIO_QUALITY_EXTERNAL], "constants.AUDIO_QUALITY_{VOICE_ONLY,LOW,NORMAL,EXTERNAL}"))
    parts.append(list_s("caseSensitiveParamValues", _pg.CASE_SENSITIVE_VALUES, "parameters_generic.CASE_SENSITIVE_VALUES"))
    parts.append(list_s("auditParamNames", [C.LOCATION_PRIORITY, C.LOCATION_MIN_INTERVAL, C.LOCATION_MAX_AGE, C.TRACK_CHANGES, C.IDENTIFY_USER, C.TRACK_CHANGES_REASONS], "constants.LOCATION_PRIORITY, LOCATION_MIN_INTERVAL, LOCATION_MAX_AGE, TRACK_CHANGES, IDENTIFY_USER, TRACK_CHANGES_REASONS"))
    _rd = None
    for _n in ast.walk(ast.parse(inspect.getsource(x2j.process_range_question_type))):
        if isinstance(_n, ast.Assign) and len(_n.targets) == 1 and getattr(_n.targets[0], "id", None) == "defaults":
            _rd = ast.literal_eval(_n.value)
    if not isinstance(_rd, dict):
        raise SystemExit("translator: cannot read the range defaults of process_range_question_type")
    parts.append(dict_ss("rangeDefaults", _rd, "xls2json.process_range_question_type: defaults"))
    # C06: literals of the text channels that the Lean model (Model/Channel.lean) writes out by hand
    def _c06_literals():
        import textwrap as _tw

        import pyxform.parsing.instance_expression as _ie
        import pyxform.survey as _sv

        out = {}
        # f"""<output value="{…}" />""" in Survey._var_repl_output_function: the constant pieces around the value
        fn = ast.parse(_tw.dedent(inspect.getsource(_sv.Survey._var_repl_output_function))).body[0]
        for n in ast.walk(fn):
            if isinstance(n, ast.JoinedStr):
                consts = [v.value for v in n.values if isinstance(v, ast.Constant)]
                holes = [v for v in n.values if isinstance(v, ast.FormattedValue)]
                if len(holes) == 1 and len(consts) == 2:
                    out["output_markup_prefix"], out["output_markup_suffix"] = consts
        # f" {last_saved_prefix}{xpath} " and f"instance('{LAST_SAVED_INSTANCE_NAME}')" in _var_repl_function
        out["last_saved_instance_name"] = utils.LAST_SAVED_INSTANCE_NAME
        src = inspect.getsource(_sv.Survey._var_repl_function)
        out["last_saved_prefix_template_present"] = str("f\"instance('{LAST_SAVED_INSTANCE_NAME}')\"" in src)
        out["var_repl_return_template_present"] = str('f" {last_saved_prefix}{self._xpath[name].get_xpath()} "' in src)
        # replace_with_output: `if 9 >= len(xml_text)`; find_boundaries: t.value == "instance("
        rw = ast.parse(_tw.dedent(inspect.getsource(_ie.replace_with_output))).body[0]
        for n in ast.walk(rw):
            if isinstance(n, ast.Compare) and isinstance(n.left, ast.Constant) and isinstance(n.left.value, int):
                out["replace_min_length"] = str(n.left.value)
        fb = ast.parse(_tw.dedent(inspect.getsource(_ie.find_boundaries))).body[0]
        calls = sorted({n.value for n in ast.walk(fb) if isinstance(n, ast.Constant) and isinstance(n.value, str) and n.value.endswith("(")})
        out["instance_call_literals"] = "|".join(calls)
        # insert_output_values: the placeholder that is passed through untouched
        io = ast.parse(_tw.dedent(inspect.getsource(_sv.Survey.insert_output_values))).body[0]
        for n in ast.walk(io):
            if isinstance(n, ast.Compare) and isinstance(n.left, ast.Name) and n.left.id == "text" and isinstance(n.comparators[0], ast.Constant):
                out["insert_output_values_passthrough"] = n.comparators[0].value
        return out

    try:
        parts.append(dict_ss("c06Literals", _c06_literals(), "C06: literals of insert_output_values / _var_repl_* / instance_expression (Model/Channel.lean)"))
    except Exception as e:  # noqa: BLE001
        raise SystemExit(f"translator: cannot read the C06 literals: {e}")
    parts += c03_sites()
    parts.append("end Pyxv.Gen\n")
    # several slices may ask for the same table: keep the first definition of each name
    seen, uniq = set(), []
    for part in parts:
        names = re.findall(r"^def (\w+)", part, re.M)
        if len(names) == 1:
            if names[0] in seen:
                continue
            seen.add(names[0])
        uniq.append(part)
    Path(out_path).write_text("\n\n".join(uniq))


if __name__ == "__main__":
    main(sys.argv[1])
