"""
C08 support: generator of translation assignments, rendering to sheets, observation of the effective
text per (element, kind, language) from an XForm, and a short independent Python reading of the
property (used to cross-check the Lean `Spec` that the oracle evaluates).

A *case* is JSON:
  {"survey_cols": [header…], "survey": [{header: cell}…], "choices_cols": […], "choices": [{…}…],
   "settings": {col: cell}, "arg_dl": str|None}
Element keys: "s<i>" = survey row i (0-based, `end group` rows have no key), "c<i>" = choices row i.
"""

from __future__ import annotations

import itertools
import xml.etree.ElementTree as ET

NS = {
    "h": "http://www.w3.org/1999/xhtml",
    "x": "http://www.w3.org/2002/xforms",
}
JR = "{http://openrosa.org/javarosa}"
XF = "{http://www.w3.org/2002/xforms}"

TEXT_KINDS = ["label", "hint", "guidance_hint", "constraint_message", "required_message"]
MEDIA_KINDS = ["image", "audio", "video", "big-image"]
KINDS_Q = ["label", "hint", "guidance_hint", "constraint_message", "required_message", "image", "audio"]
KINDS_G = ["label", "image"]
KINDS_C = ["label", "image", "audio"]

# spellings of a translatable column (first token(s)); the harness's own table, not /repo's
SPELL_SURVEY = {
    "label": ["label", "Label", "caption"],
    "hint": ["hint", "Hint"],
    "guidance_hint": ["guidance_hint", "guidance hint", "Guidance_Hint"],
    "constraint_message": ["constraint_message", "constraint message", "constraining_message", "bind|jr:constraintMsg"],
    "required_message": ["required_message", "requiredmsg", "bind|jr:requiredMsg"],
    "image": ["image", "media|image"],
    "audio": ["audio", "media|audio"],
    "video": ["video", "media|video"],
    "big-image": ["big-image", "media|big-image"],
}
SPELL_CHOICES = {
    "label": ["label", "Label", "caption"],
    "image": ["image", "media|image"],
    "audio": ["audio", "media|audio"],
    "video": ["video"],
    "big-image": ["big-image"],
}
# reading direction (spec side): normalised first token(s) -> kind
KIND_OF = {}
for _k, _sp in SPELL_SURVEY.items():
    for _s in _sp:
        KIND_OF["_".join(_s.split()).lower() if "|" not in _s else _s] = _k
KIND_OF["bind|jr:constraintmsg"] = "constraint_message"
KIND_OF["bind|jr:requiredmsg"] = "required_message"

LANG_POOL = ["en", "fr", "de", "French (fr)", "default", "EN", "pt-BR"]
STYLES = ["::", ":", " :: ", " : ", ":: "]
PLACEHOLDER = "-"


# ----------------------------------------------------------------------------- rendering


def header(kind: str, lang, style: str, spelling: str) -> str:
    """`spelling` uses `|` where the delimiter goes."""
    toks = spelling.split("|") + ([lang] if lang is not None else [])
    return style.join(toks)


def render(form: dict) -> dict:
    """abstract form -> case.  form = {"style", "elems": [{etype,name,parent,list,cells:{(kind,lang):text}}],
    "choices": [{list,name,cells}], "dl_setting", "dl_arg", "col_perm_seed"/"order"}"""
    style = form["style"]
    spell = form.get("spell", {})

    def hdr(sheet, kind, lang):
        tab = SPELL_SURVEY if sheet == "s" else SPELL_CHOICES
        sp = spell.get((sheet, kind, lang), tab[kind][0])
        return header(kind, lang, style, sp)

    survey, s_cols = [], []
    open_group = None

    def close():
        nonlocal open_group
        if open_group is not None:
            survey.append({"type": "end group"})
            open_group = None

    for e in form["elems"]:
        if e.get("parent") != open_group or e["etype"] == "g":
            close()
        row = {"name": e["name"]}
        if e["etype"] == "g":
            row["type"] = "begin group"
            open_group = e["name"]
        elif e["etype"] == "sel":
            row["type"] = e.get("seltype", "select_one") + " " + e["list"]
        else:
            row["type"] = e.get("qtype", "text")
        for (kind, lang), text in e["cells"].items():
            h = hdr("s", kind, lang)
            row[h] = text
            if h not in s_cols:
                s_cols.append(h)
        if e.get("appearance"):
            row["appearance"] = e["appearance"]
            if "appearance" not in s_cols:
                s_cols.append("appearance")
        survey.append(row)
    close()
    for h in form.get("extra_survey_cols", []):
        if h not in s_cols:
            s_cols.append(h)
    choices, c_cols = [], []
    for c in form.get("choices", []):
        row = {"list_name": c["list"], "name": c["name"]}
        for (kind, lang), text in c["cells"].items():
            h = hdr("c", kind, lang)
            row[h] = text
            if h not in c_cols:
                c_cols.append(h)
        choices.append(row)
    for h in form.get("extra_choices_cols", []):
        if h not in c_cols:
            c_cols.append(h)
    rng = form.get("_rng")
    s_all = ["type", "name"] + s_cols
    c_all = ["list_name", "name"] + c_cols
    if form.get("s_order") is not None:
        s_all = [s_all[i] for i in form["s_order"]]
    elif rng is not None:
        rng.shuffle(s_all)
    if form.get("c_order") is not None:
        c_all = [c_all[i] for i in form["c_order"]]
    elif rng is not None:
        rng.shuffle(c_all)
    # the order of the cells *within a row dict* follows the sheet's column order (as every backend does)
    survey = [{h: r[h] for h in s_all if h in r} for r in survey]
    choices = [{h: r[h] for h in c_all if h in r} for r in choices]
    case = {"survey_cols": s_all, "survey": survey, "choices_cols": c_all if choices else [],
            "choices": choices, "settings": {}, "arg_dl": form.get("dl_arg")}
    if form.get("dl_setting") is not None:
        case["settings"] = {"default_language": form["dl_setting"]}
    return case


def wb_of_case(case: dict) -> dict:
    wb = {"survey": [dict(r) for r in case["survey"]],
          "survey_header": [{c: None for c in case["survey_cols"]}], "sheet_names": ["survey"]}
    if case["choices"] or case["choices_cols"]:
        wb["choices"] = [dict(r) for r in case["choices"]]
        wb["choices_header"] = [{c: None for c in case["choices_cols"]}]
        wb["sheet_names"].append("choices")
    if case["settings"]:
        wb["settings"] = [dict(case["settings"])]
        wb["settings_header"] = [{c: None for c in case["settings"]}]
        wb["sheet_names"].append("settings")
    return wb


def driver_case(case: dict) -> dict:
    return {
        "survey_cols": case["survey_cols"],
        "survey": [[[k, v] for k, v in r.items()] for r in case["survey"]],
        "choices_cols": case["choices_cols"],
        "choices": [[[k, v] for k, v in r.items()] for r in case["choices"]],
        "settings": [[k, v] for k, v in case["settings"].items()],
        "arg_dl": case["arg_dl"],
    }


# ----------------------------------------------------------------------------- structure of a case


def survey_layout(case: dict):
    """[(key, xpath, etype, list|None)] for the element rows of the survey sheet (own reading of
    begin/end group nesting); root is /data."""
    out, stack = [], []
    for i, r in enumerate(case["survey"]):
        t = " ".join(str(r.get("type", "")).split())
        if t.startswith("end "):
            if stack:
                stack.pop()
            continue
        name = r.get("name", "")
        path = "/data/" + "/".join(stack + [name])
        if t.startswith("begin "):
            out.append((f"s{i}", path, "g", None))
            stack.append(name)
        elif t.startswith(("select_one ", "select_multiple ")):
            out.append((f"s{i}", path, "sel", t.split(" ")[1]))
        else:
            out.append((f"s{i}", path, "q", None))
    return out


def choices_layout(case: dict):
    """[(key, list, idx)] in sheet order; idx = position within the list."""
    out, n = [], {}
    for i, r in enumerate(case["choices"]):
        ln = r.get("list_name", "")
        out.append((f"c{i}", ln, n.get(ln, 0)))
        n[ln] = n.get(ln, 0) + 1
    return out


# ----------------------------------------------------------------------------- observation


def _text(el) -> str:
    """text content with every <output value=" /path/to/name "/> written back as ${name} (the reference as typed)"""
    out = [el.text or ""]
    for ch in el:
        if ch.tag == XF + "output":
            out.append("${" + (ch.get("value") or "").strip().rsplit("/", 1)[-1] + "}")
        else:
            out.append(_text(ch))
        out.append(ch.tail or "")
    r = "".join(out)
    # the DOM writer pads mixed content (text + <output>) with one leading and one trailing space (C15's subject)
    return r.strip(" ") if len(el) else r


def _resolve(ref: str):
    if ref.startswith("jr:itext('") and ref.endswith("')"):
        return ref[len("jr:itext('"):-2]
    return None


def observe(xform: str, case: dict) -> dict:
    """{"langs": [...], "dup_langs": bool, "default": [langs flagged default], "text": {key: {kind: {lang: text}}}}
    Languages: those of the <translation> elements; when there is none, the pseudo language "" stands for
    "what is shown without any language" (inline text only)."""
    root = ET.fromstring(xform)
    model = root.find("h:head/x:model", NS)
    body = root.find("h:body", NS)
    itext = model.find("x:itext", NS)
    tr = {}
    langs, dup, dflt = [], False, []
    if itext is not None:
        for t in itext.findall("x:translation", NS):
            lang = t.get("lang")
            if lang in tr:
                dup = True
            langs.append(lang)
            if t.get("default") is not None:
                dflt.append(lang)
            table = {}
            for tx in t.findall("x:text", NS):
                forms = {}
                for v in tx.findall("x:value", NS):
                    f = v.get("form") or "long"
                    forms.setdefault(f, []).append(_text(v))
                table.setdefault(tx.get("id"), []).append(forms)
            tr[lang] = table
    view_langs = langs if langs else [""]

    def via(ref_or_text, inline, form, lang):
        """effective content for one language: ref_or_text = itext id or None (then `inline`)."""
        if ref_or_text is None:
            return inline if form == "long" else None
        if lang == "":
            return "<itext-without-translation>"
        entries = tr.get(lang, {}).get(ref_or_text)
        if entries is None:
            return "<dangling:%s>" % ref_or_text
        if len(entries) > 1:
            return "<duplicate-text-id:%s>" % ref_or_text
        vals = entries[0].get(form)
        if vals is None:
            return None
        if len(vals) > 1:
            return "<duplicate-value:%s>" % ref_or_text
        v = vals[0]
        if form in ("image", "big-image"):
            return v[len("jr://images/"):] if v.startswith("jr://images/") else "<bad-uri:%s>" % v
        if form in ("audio", "video"):
            p = "jr://%s/" % form
            return v[len(p):] if v.startswith(p) else "<bad-uri:%s>" % v
        return v

    binds = {b.get("nodeset"): b for b in model.findall("x:bind", NS)}
    controls = {}
    for el in body.iter():
        r = el.get("ref")
        if r is not None and r.startswith("/") and el.tag.startswith(XF) and el.tag[len(XF):] not in ("label", "hint"):
            controls.setdefault(r, el)
    text = {}

    def put(key, kind, lang, v):
        if v is not None:
            text.setdefault(key, {}).setdefault(kind, {})[lang] = v

    for key, path, etype, _ in survey_layout(case):
        ctl = controls.get(path)
        lab = ctl.find("x:label", NS) if ctl is not None else None
        hin = ctl.find("x:hint", NS) if ctl is not None else None
        b = binds.get(path)
        for lang in view_langs:
            if lab is not None:
                if lab.get("ref"):
                    rid = _resolve(lab.get("ref"))
                    if rid is None:
                        put(key, "label", lang, "<odd-ref:%s>" % lab.get("ref"))
                    else:
                        put(key, "label", lang, via(rid, None, "long", lang))
                        for m in MEDIA_KINDS:
                            put(key, m, lang, via(rid, None, m, lang))
                else:
                    put(key, "label", lang, _text(lab) or None)
            if hin is not None:
                if hin.get("ref"):
                    rid = _resolve(hin.get("ref"))
                    if rid is None:
                        put(key, "hint", lang, "<odd-ref:%s>" % hin.get("ref"))
                    else:
                        put(key, "hint", lang, via(rid, None, "long", lang))
                        put(key, "guidance_hint", lang, via(rid, None, "guidance", lang))
                else:
                    put(key, "hint", lang, _text(hin) or None)
            if b is not None:
                for kind, attr in (("constraint_message", JR + "constraintMsg"), ("required_message", JR + "requiredMsg")):
                    v = b.get(attr)
                    if v is not None:
                        rid = _resolve(v)
                        put(key, kind, lang, via(rid, v, "long", lang))
    # choices: as shown through every select control that uses the list — an <itemset> pointing into the
    # secondary instance (label ref `jr:itext(<child>)` or a child element), or in-line <item>s (search() selects)
    inst = {i.get("id"): i for i in model.findall("x:instance", NS) if i.get("id")}
    by_list = {}
    for ckey, ln, idx in choices_layout(case):
        by_list.setdefault(ln, []).append((ckey, idx))
    for skey, path, etype, ln in survey_layout(case):
        if etype != "sel":
            continue
        ctl = controls.get(path)
        if ctl is None:
            continue
        itemset = ctl.find("x:itemset", NS)
        inline_items = ctl.findall("x:item", NS)
        for ckey, idx in by_list.get(ln, []):
            key = f"{ckey}@{skey}"
            rid, inline, have = None, None, False
            if itemset is not None:
                ns_ = itemset.get("nodeset") or ""
                m_ = ns_.find("instance('")
                iname = ns_[m_ + 10: ns_.find("')", m_)] if m_ >= 0 else None
                ins = inst.get(iname)
                items = ins.findall("x:root/x:item", NS) if ins is not None else []
                lref = (itemset.find("x:label", NS).get("ref") if itemset.find("x:label", NS) is not None else "") or ""
                if idx < len(items):
                    have = True
                    it = items[idx]
                    if lref.startswith("jr:itext(") and lref.endswith(")"):
                        ch = it.find("x:" + lref[len("jr:itext("):-1], NS)
                        rid = (ch.text or "") if ch is not None else "<no-%s-child>" % lref
                    else:
                        ch = it.find("x:" + lref, NS) if lref and "/" not in lref and "(" not in lref else None
                        inline = (ch.text or "") if ch is not None else None
            elif inline_items:
                if idx < len(inline_items):
                    have = True
                    lab = inline_items[idx].find("x:label", NS)
                    if lab is not None and lab.get("ref"):
                        rid = _resolve(lab.get("ref"))
                        if rid is None:
                            inline = "<odd-ref:%s>" % lab.get("ref")
                    elif lab is not None:
                        inline = _text(lab) or None
            if not have:
                continue
            for lang in view_langs:
                if rid is not None:
                    put(key, "label", lang, via(rid, None, "long", lang))
                    for m in MEDIA_KINDS:
                        put(key, m, lang, via(rid, None, m, lang))
                elif inline is not None:
                    put(key, "label", lang, inline)
    return {"langs": langs, "dup_langs": dup, "default": dflt, "text": text}


# ----------------------------------------------------------------------------- independent Python reading of the property


def read_header(h: str, double: bool):
    """(kind, lang|None) of a translatable column header, or None.  Own reading of the documented syntax:
    tokens separated by `::` (or `:` when no header of the sheet contains `::`), spaces around tokens ignored,
    first token case/space-insensitive, optional `media`/`bind` group token, last token = language."""
    if double or "::" in h:
        toks = [t.strip() for t in h.split("::")]
    else:
        toks = [t.strip() for t in h.split(":")]
        if "jr" in toks[:-1]:
            j = toks.index("jr")
            toks = toks[:j] + ["jr:" + toks[j + 1]] + toks[j + 2:]
    first = "_".join(toks[0].split()).lower()
    if first in ("media", "bind") and len(toks) >= 2:
        k = KIND_OF.get(first + "|" + toks[1]) or KIND_OF.get(first + "|" + toks[1].lower())
        rest = toks[2:]
    else:
        k = KIND_OF.get(first)
        rest = toks[1:]
    if k is None or len(rest) > 1:
        return None
    return k, (rest[0] if rest else None)


def py_spec(case: dict, strict_langs: bool = True) -> dict:
    """{"langs": sorted list, "langs_content": sorted list, "text": {key: {kind: {lang: text}}}}"""
    dl = case["settings"].get("default_language") or case["arg_dl"] or "default"
    s_double = any("::" in h for h in case["survey_cols"])
    c_double = any("::" in h for h in case["choices_cols"])
    named = set()
    for h in case["survey_cols"]:
        r = read_header(h, s_double)
        if r and r[1] is not None:
            named.add(r[1])
    for h in case["choices_cols"]:
        r = read_header(h, c_double)
        if r and r[1] is not None and r[0] in KINDS_C + ["video", "big-image"]:
            named.add(r[1])

    def cells_of(row, double, allowed):
        out = {}
        for h, v in row.items():
            if v in (None, ""):
                continue
            r = read_header(h, double)
            if r and r[0] in allowed:
                k, lang = r
                out.setdefault(k, {"u": None, "s": {}})
                if lang is None:
                    out[k]["u"] = v
                else:
                    out[k]["s"][lang] = v
        return out

    def lang_map(c):
        """what is written per language for an itext-bearing (element, kind)"""
        m = dict(c["s"])
        if c["u"] is not None and dl not in m:
            m[dl] = c["u"]
        return m

    plan = {}  # key -> kind -> ("inline", text) | ("itext", {lang: text})
    used = set()
    for (key, path, etype, _), i in ((x, int(x[0][1:])) for x in survey_layout(case)):
        allowed = KINDS_G if etype == "g" else TEXT_KINDS + MEDIA_KINDS
        c = cells_of(case["survey"][i], s_double, allowed)
        has_media = any(k in c for k in MEDIA_KINDS)
        has_guid = "guidance_hint" in c
        p = {}
        for k, ck in c.items():
            if k in MEDIA_KINDS or k == "guidance_hint":
                p[k] = ("itext", lang_map(ck))
            elif k == "label":
                p[k] = ("itext", lang_map(ck)) if (ck["s"] or has_media) else ("inline", ck["u"])
            elif k == "hint":
                p[k] = ("itext", lang_map(ck)) if (ck["s"] or has_guid) else ("inline", ck["u"])
            else:
                has_ref = ck["u"] is not None and any("}" in part.split("\n")[0] for part in ck["u"].split("${")[1:])
                p[k] = ("itext", lang_map(ck)) if (ck["s"] or has_ref) else ("inline", ck["u"])
        if etype == "g" and "label" not in p:
            p = {}  # a group shows its media through its label
        plan[key] = p
    lists = {}
    for key, ln, idx in choices_layout(case):
        lists.setdefault(ln, []).append(key)
    used_lists = {ln for (_, _, et, ln) in survey_layout(case) if et == "sel"}
    for ln, keys in lists.items():
        if ln not in used_lists:
            continue
        cs = {k: cells_of(case["choices"][int(k[1:])], c_double, KINDS_C + ["video", "big-image"]) for k in keys}
        itext = any(any(m in c for m in MEDIA_KINDS) or ("label" in c and c["label"]["s"]) for c in cs.values())
        for k, c in cs.items():
            p = {}
            for kind, ck in c.items():
                if itext:
                    p[kind] = ("itext", lang_map(ck))
                else:
                    p[kind] = ("inline", ck["u"])
            plan[k] = p
    for p in plan.values():
        for kind, (how, m) in p.items():
            if how == "itext":
                used |= set(m)
    langs_content = sorted(used)
    langs = sorted(used | named) if strict_langs else langs_content
    return {"langs": langs, "langs_content": langs_content, "plan": plan, "dl": dl}


def expand_choice_keys(case: dict, text: dict) -> dict:
    """a choice's texts are demanded through every select that uses its list: c<i> -> c<i>@s<j>"""
    out = {k: v for k, v in text.items() if not k.startswith("c")}
    sels = [(skey, ln) for skey, _, et, ln in survey_layout(case) if et == "sel"]
    for ckey, ln, _ in choices_layout(case):
        if ckey in text:
            for skey, l2 in sels:
                if l2 == ln:
                    out[f"{ckey}@{skey}"] = text[ckey]
    return out


def spec_text(spec: dict, view_langs) -> dict:
    """effective text demanded for the given languages (the observed ones, or [""] when none)"""
    text = {}
    for key, p in spec["plan"].items():
        for kind, (how, m) in p.items():
            for lang in view_langs:
                if how == "inline":
                    v = m
                elif lang == "":
                    v = "<itext-without-translation>"
                elif lang in m:
                    v = m[lang]
                elif kind in MEDIA_KINDS or not m:
                    v = None
                else:
                    v = PLACEHOLDER
                if v is not None:
                    text.setdefault(key, {}).setdefault(kind, {})[lang] = v
    return text


# ----------------------------------------------------------------------------- generators


ALL_LANGS = LANG_POOL + ["xx", "zz"]


def marker(sheet, i, kind, lang):
    """Distinct text per (sheet, row, kind, language).  It must not contain any language name: merge_dicts
    tests `default_key in dict_b` on *strings* too (a substring test), which would mask the nested-default shape."""
    ab = {"label": "L", "hint": "H", "guidance_hint": "G", "constraint_message": "C", "required_message": "R",
          "image": "I", "audio": "A", "video": "V", "big-image": "B"}
    li = 0 if lang is None else 1 + ALL_LANGS.index(lang) if lang in ALL_LANGS else 99
    tag = f"{sheet}{i}{ab[kind]}{li}"
    return tag + (".png" if kind in ("image", "big-image") else ".mp3" if kind == "audio" else ".mp4" if kind == "video" else "")


def nested_default_hits(case: dict):
    """[(sheet, row index, kind)] where merge_dicts nests {dl: {dl: text}}: within one row and one translatable
    column group, the unsuffixed cell, a cell suffixed with another language and then the cell suffixed with the
    default language (in column order: the default-language cell after both others).  merge_dicts then merges two
    *strings* under the default key.  On the survey sheet the conversion dies (C17's finding, reported by the C07
    builder); on the choices sheet the text is silently filed under form=<language> and lost (C08 finding F39)."""
    dl = case["settings"].get("default_language") or case["arg_dl"] or "default"
    hits = []
    for sheet in ("survey", "choices"):
        double = any("::" in h for h in case[sheet + "_cols"])
        for i, row in enumerate(case[sheet]):
            st = {}
            for h, v in row.items():
                if v in (None, ""):
                    continue
                r = read_header(h, double)
                if not r:
                    continue
                k, lang = r
                u, other = st.get(k, (False, False))
                if lang is None:
                    u = True
                elif lang == dl:
                    if u and other and dl not in v:
                        hits.append((sheet, i, k))
                    u = False  # the suffixed cell replaces / absorbs the unsuffixed one from here on
                else:
                    other = True
                st[k] = (u, other)
    return hits


def nested_default_shape(case: dict) -> bool:
    """the hits that crash the conversion (survey sheet: any kind; choices sheet: media kinds — KeyError 'text')"""
    return any(h[0] == "survey" or h[2] in MEDIA_KINDS for h in nested_default_hits(case))


def random_form(rng, big=False) -> dict:
    nl = rng.choice([0, 1, 1, 2, 2, 2, 3])
    langs = rng.sample(LANG_POOL, nl)
    style = rng.choice(STYLES)
    n_el = rng.randint(1, 3)
    elems, choices, spell = [], [], {}
    lists = []
    dens = rng.choice([0.15, 0.3, 0.5, 0.8])
    group_open = None
    for i in range(n_el):
        r = rng.random()
        if r < 0.15 and group_open is None and i < n_el - 1:
            et = "g"
        elif r < 0.4:
            et = "sel"
        else:
            et = "q"
        name = f"n{i}" if rng.random() < 0.8 else rng.choice(["q", "my_guidance_hint_q", "label", "hint"]) + str(i)
        e = {"etype": et, "name": name, "parent": group_open, "cells": {}}
        kinds = KINDS_G if et == "g" else KINDS_Q
        if big and et != "g" and rng.random() < 0.2:
            kinds = kinds + ["video", "big-image"]
        for k in kinds:
            for lang in [None] + langs:
                if rng.random() < dens:
                    e["cells"][(k, lang)] = marker("S", i, k, lang)
        if "big-image" in [k for k, _ in e["cells"]] and not any(k == "image" for k, _ in e["cells"]):
            e["cells"] = {kl: v for kl, v in e["cells"].items() if kl[0] != "big-image"}
        # keep the form acceptable most of the time: something to show
        if not any(k in ("label", "hint") or (k in MEDIA_KINDS) for k, _ in e["cells"]) or (et == "g" and not any(k == "label" for k, _ in e["cells"])):
            lang = rng.choice([None] + langs)
            e["cells"][("label", lang)] = marker("S", i, "label", lang)
        if et == "g":
            group_open = name
        elif group_open is not None and rng.random() < 0.5:
            group_open = None
        if et == "sel":
            if lists and rng.random() < 0.3:
                e["list"] = rng.choice(lists)
            else:
                e["list"] = f"l{len(lists)}"
                lists.append(e["list"])
            e["seltype"] = rng.choice(["select_one", "select_multiple"])
            e["_want_search"] = rng.random() < 0.3
        else:
            e["qtype"] = rng.choice(["text", "integer", "note", "text"])
        elems.append(e)
    # ${references} to other questions inside texts of questions (they need <output>; a message with one goes to itext)
    # the same name in different groups is legal while nothing references it
    for j, e in enumerate(elems):
        if e["etype"] != "g" and e.get("parent") is not None and rng.random() < 0.3:
            cands = [x["name"] for x in elems[:j] if x["etype"] != "g" and x.get("parent") != e["parent"]]
            if cands:
                e["name"] = rng.choice(cands)
    allnames = [e["name"] for e in elems]
    qnames = [e["name"] for e in elems if e["etype"] in ("q", "sel") and allnames.count(e["name"]) == 1]
    if qnames and rng.random() < 0.4:
        for e in elems:
            if e["etype"] == "g":
                continue
            for (k, lang) in list(e["cells"]):
                if k in TEXT_KINDS and rng.random() < (0.5 if k.endswith("message") else 0.15):
                    e["cells"][(k, lang)] += " ${%s}" % rng.choice(qnames)
    if elems[-1]["etype"] == "g":
        elems.append({"etype": "q", "name": "inner", "parent": elems[-1]["name"], "qtype": "text",
                      "cells": {("label", None): marker("S", 9, "label", None)}})
    # search() selects: in-line items instead of an itemset; a list must not be shared with an ordinary select
    # (rejected) — mostly keep lists consistent, sometimes not
    for ln in lists:
        users = [e for e in elems if e.get("list") == ln]
        if users and users[0]["_want_search"]:
            for e in users:
                if e is users[0] or rng.random() < 0.9:
                    e["appearance"] = rng.choice(["search('crops')", "minimal search('c', 'matches', 'k', 'v')", "search('a')"])
    ci = 0
    cdens = rng.choice([0.2, 0.5, 0.8])
    for ln in lists:
        for j in range(rng.randint(1, 3)):
            c = {"list": ln, "name": f"o{j}", "cells": {}}
            for k in KINDS_C:
                for lang in [None] + langs:
                    if rng.random() < (cdens if k == "label" else cdens / 2):
                        c["cells"][(k, lang)] = marker("C", ci, k, lang)
            if not any(k == "label" for k, _ in c["cells"]):
                if rng.random() < 0.25:
                    # an unlabelled choice (only a warning); half of them media-less too
                    if rng.random() < 0.5:
                        c["cells"] = {}
                else:
                    lang = rng.choice([None] + langs)
                    c["cells"][("label", lang)] = marker("C", ci, "label", lang)
            choices.append(c)
            ci += 1
    colon_ok = ":" in style and "::" not in style
    for e in elems:
        for (k, lang) in e["cells"]:
            opts = [s for s in SPELL_SURVEY[k]]
            spell[("s", k, lang)] = rng.choice(opts) if rng.random() < 0.4 else opts[0]
    for c in choices:
        for (k, lang) in c["cells"]:
            spell[("c", k, lang)] = rng.choice(SPELL_CHOICES[k]) if rng.random() < 0.3 else SPELL_CHOICES[k][0]
    # one spelling per unsuffixed column and no two spellings that collapse onto the same tokens
    form = {"style": style, "elems": elems, "choices": choices, "spell": spell, "_rng": rng}
    dlc = rng.random()
    pool = langs + ["xx"]
    if dlc < 0.35:
        form["dl_setting"] = rng.choice(pool)
    elif dlc < 0.6:
        form["dl_arg"] = rng.choice(pool)
    elif dlc < 0.7:
        form["dl_setting"] = rng.choice(pool)
        form["dl_arg"] = rng.choice(pool)
    # F38 shape: a translated column whose cells are all empty
    if rng.random() < 0.04:
        form["extra_survey_cols"] = [header("label", "zz", style, "label")]
    elif rng.random() < 0.02 and choices:
        form["extra_choices_cols"] = [header("label", "zz", style, "label")]
    return form


# ----------------------------------------------------------------------------- repeats (any depth)


def _parse_tree(rows):
    """survey rows -> [node]; node = {"row", "kids": list|None, "end": row|None}"""
    root, stack = [], []
    cur = root
    for r in rows:
        t = " ".join(str(r.get("type", "")).split())
        if t.startswith("begin "):
            n = {"row": r, "kids": [], "end": None}
            cur.append(n)
            stack.append(cur)
            cur = n["kids"]
        elif t.startswith("end "):
            if not stack:
                raise ValueError("unbalanced")
            parent = stack.pop()
            parent[-1]["end"] = r
            cur = parent
        else:
            cur.append({"row": r, "kids": None, "end": None})
    if stack:
        raise ValueError("unbalanced")
    return root


def _flatten(nodes, out):
    for n in nodes:
        out.append(n["row"])
        if n["kids"] is not None:
            _flatten(n["kids"], out)
            out.append(n["end"])
    return out


def nest_repeats(rng, case: dict, max_depth: int = 3) -> dict:
    """the same case with its rows nested in repeats: some groups become repeats, and runs of sibling rows are wrapped into
    1..max_depth new nested sections (repeats mostly, sometimes a group) that carry their own per-language label cells in the
    sheet's existing label columns.  Row keys stay "s<i>" of the new sheet; xpaths now pass through the repeats."""
    cols = case["survey_cols"]
    double = any("::" in h for h in cols)
    label_cols = [h for h in cols if (read_header(h, double) or (None,))[0] == "label"]
    hint_cols = [h for h in cols if (read_header(h, double) or (None,))[0] == "hint"]
    tree = _parse_tree([dict(r) for r in case["survey"]])
    counter = [0]

    def mk_wrapper(kids):
        k = counter[0]
        counter[0] += 1
        kind = "repeat" if rng.random() < 0.8 else "group"
        row = {"type": "begin " + kind, "name": f"rep{k}"}
        for h in label_cols:
            if rng.random() < 0.6:
                row[h] = f"R{k}|{h}"
        # a hint written on a repeat/group row: never shown (sections have no <hint>), must not leak into any other element
        if rng.random() < 0.3:
            for h in hint_cols:
                if rng.random() < 0.6:
                    row[h] = f"RH{k}|{h}"
        row = {h: row[h] for h in cols if h in row}
        return {"row": row, "kids": kids, "end": {"type": "end " + kind}}

    def walk(nodes, depth):
        for n in nodes:
            if n["kids"] is not None:
                if n["row"]["type"].split() == ["begin", "group"] and rng.random() < 0.5:
                    n["row"]["type"] = "begin repeat"
                    n["end"]["type"] = "end repeat"
                walk(n["kids"], depth + 1)
        if nodes and rng.random() < (0.9 if depth == 0 else 0.4):
            a = rng.randrange(len(nodes))
            b = rng.randint(a + 1, len(nodes))
            inner = nodes[a:b]
            for _ in range(rng.randint(1, max_depth)):
                inner = [mk_wrapper(inner)]
            nodes[a:b] = inner

    walk(tree, 0)
    out = dict(case)
    out["survey"] = _flatten(tree, [])
    return out


def deep_repeat_family():
    """Directed family: one translated question under 1..6 nested repeats, each repeat with its own translated label; a select
    with an itext list at the bottom."""
    for depth in range(1, 7):
        for dl in (None, "fr"):
            rows = []
            for d in range(depth):
                r = {"type": "begin repeat", "name": f"r{d}"}
                if d % 2 == 0:
                    r["label"] = f"R{d}"
                if d % 3 != 1:
                    r["label::fr"] = f"R{d}fr"
                rows.append(r)
            rows.append({"type": "text", "name": "q", "label": "Q", "label::fr": "Qfr", "hint::en": "Hen"})
            rows.append({"type": "select_one l", "name": "sel", "label::en": "Sen"})
            rows += [{"type": "end repeat"} for _ in range(depth)]
            cols = ["type", "name", "label", "label::fr", "hint::en", "label::en"]
            rows = [{h: r[h] for h in cols if h in r} for r in rows]
            yield {"survey_cols": cols, "survey": rows, "choices_cols": ["list_name", "name", "label", "label::fr"],
                   "choices": [{"list_name": "l", "name": "a", "label": "A", "label::fr": "Afr"},
                               {"list_name": "l", "name": "b", "label::fr": "Bfr"}],
                   "settings": {"default_language": dl} if dl else {}, "arg_dl": None}


def exhaustive_small(kinds=None, sheet="s"):
    """1 element × 1 kind × {unsuffixed, A, B}: all 8 subsets × all column orders of the kind's columns
    (type/name first) × default-language configurations × 2 delimiter styles.  Yields abstract forms."""
    A, B = "en", "fr"
    for kind in kinds or (KINDS_Q if sheet == "s" else KINDS_C):
        for present in itertools.product([0, 1], repeat=3):
            cols = [l for l, p in zip([None, A, B], present) if p]
            for perm in itertools.permutations(range(len(cols))):
                for dl in (None, ("s", A), ("a", B), ("s", "xx")):
                    for style in ("::", ":"):
                        cells = {}
                        base = {}
                        if sheet == "s":
                            if kind != "label":
                                base[("label", None)] = "BASE"
                            for j in perm:
                                cells[(kind, cols[j])] = marker("S", 0, kind, cols[j])
                            e = {"etype": "q", "name": "q0", "parent": None, "qtype": "text", "cells": {**cells, **base}}
                            # the kind's columns in the permuted order, the base label before or after
                            form = {"style": style, "elems": [e], "choices": []}
                            if base:
                                e["cells"] = {**cells, **base} if perm and perm[0] % 2 == 0 else {**base, **cells}
                        else:
                            if kind != "label":
                                base[("label", None)] = "BASE"
                            for j in perm:
                                cells[(kind, cols[j])] = marker("C", 0, kind, cols[j])
                            e = {"etype": "sel", "name": "q0", "parent": None, "list": "l0", "cells": {("label", None): "QL"}}
                            c0 = {"list": "l0", "name": "o0", "cells": {**cells, **base}}
                            c1 = {"list": "l0", "name": "o1", "cells": {("label", None): "OTHER"}}
                            form = {"style": style, "elems": [e], "choices": [c0, c1]}
                        if dl:
                            form["dl_setting" if dl[0] == "s" else "dl_arg"] = dl[1]
                        nk = len(form["elems"][0]["cells"]) if sheet == "s" else len(form["choices"][0]["cells"])
                        form["s_order"] = None
                        yield form


def directed_cases():
    """Witness families of DESIGN 7.2 for this property (F19, F24 repaired; F38 open) and shapes found while proving."""
    def case(cols, rows, ccols=(), crows=(), settings=None, arg=None):
        return {"survey_cols": list(cols), "survey": [dict(r) for r in rows], "choices_cols": list(ccols),
                "choices": [dict(r) for r in crows], "settings": dict(settings or {}), "arg_dl": arg}
    q = {"type": "text", "name": "q"}
    # F38: language named by an all-empty column (survey, choices)
    yield case(["type", "name", "label", "label::fr", "label::zz"], [{**q, "label": "Q", "label::fr": "Qfr"}])
    yield case(["type", "name", "label"], [{"type": "select_one l", "name": "q", "label": "Q"}],
               ["list_name", "name", "label", "label::fr", "image::zz"], [{"list_name": "l", "name": "a", "label": "A", "label::fr": "Afr"}])
    # F19 (repaired): suffixed before unsuffixed, every one-token translatable column, both sheets
    for k in ("label", "hint", "guidance_hint"):
        base = {} if k == "label" else {"label": "B"}
        yield case(["type", "name", *base, f"{k}::fr", k], [{**q, **base, f"{k}::fr": "Xfr", k: "Xu"}])
        yield case(["type", "name", *base, f"{k}::fr", k], [{**q, **base, f"{k}::fr": "Xfr", k: "Xu"}], settings={"default_language": "fr"})
    yield case(["type", "name", "label"], [{"type": "select_one l", "name": "q", "label": "Q"}],
               ["list_name", "name", "label::fr", "label"], [{"list_name": "l", "name": "a", "label::fr": "Afr", "label": "A"}])
    # F24 (repaired): names containing guidance_hint, own and ancestor
    yield case(["type", "name", "label", "label::fr", "hint", "guidance_hint::fr"],
               [{"type": "begin group", "name": "my_guidance_hint_g", "label": "G", "label::fr": "Gfr"},
                {"type": "text", "name": "a_guidance_hint", "label": "Q", "label::fr": "Qfr", "hint": "H", "guidance_hint::fr": "GHfr"},
                {"type": "end group"}])
    # the default language's own suffix next to the unsuffixed column, both orders (documented overwrite rule)
    for cols in (["label", "label::fr"], ["label::fr", "label"]):
        yield case(["type", "name", *cols], [{**q, **{c: ("Qfr" if "::" in c else "Qu") for c in cols}}], settings={"default_language": "fr"})
        yield case(["type", "name", *cols], [{**q, **{c: ("Qfr" if "::" in c else "Qu") for c in cols}}], arg="fr")
    # the unsuffixed text contains the default language's name (str-in-str test of merge_dicts must not fire)
    yield case(["type", "name", "label::en", "label"], [{**q, "label::en": "Qen", "label": "the default text"}])
    # rows mixing translated and untranslated kinds
    yield case(["type", "name", "label", "label::fr", "hint"],
               [{**q, "label": "Q", "hint": "H"}, {"type": "text", "name": "r", "label::fr": "Rfr"}])


def search_family():
    """Directed family around in-line items of search() selects: one or two search selects on a list of 3 choices in
    which each choice independently has {only unsuffixed label, only fr label, both, unsuffixed + fr image}; the
    question with / without its own label; default language unset or fr.  (27 x 2 x 2 x 2 abstract forms; sampled.)"""
    shapes = {
        "u": lambda i: {("label", None): marker("C", i, "label", None)},
        "f": lambda i: {("label", "fr"): marker("C", i, "label", "fr")},
        "uf": lambda i: {("label", None): marker("C", i, "label", None), ("label", "fr"): marker("C", i, "label", "fr")},
        "um": lambda i: {("label", None): marker("C", i, "label", None), ("image", "fr"): marker("C", i, "image", "fr")},
    }
    names = list(shapes)
    for a in names:
        for b in names:
            for c in ("u", "um", "uf"):
                for two in (False, True):
                    for qlab in (True, False):
                        for dl in (None, "fr"):
                            cells = {("label", None): "QL0"} if qlab else {("hint", None): "QH0"}
                            elems = [{"etype": "sel", "name": "q0", "parent": None, "list": "l0", "seltype": "select_one",
                                      "appearance": "search('crops')", "cells": dict(cells)}]
                            if two:
                                elems.append({"etype": "sel", "name": "q1", "parent": None, "list": "l0", "seltype": "select_multiple",
                                              "appearance": "minimal search('crops')", "cells": {("label", "fr"): "QL1"}})
                            choices = [{"list": "l0", "name": f"o{i}", "cells": shapes[sh](i)} for i, sh in enumerate((a, b, c))]
                            form = {"style": "::", "elems": elems, "choices": choices}
                            if dl:
                                form["dl_setting"] = dl
                            yield form


def unlabelled_family():
    """Directed family around the numbering of itext ids of choices (`<list>-<idx>` must be the position in the full
    list everywhere): a list of 4 choices, each ∈ {labelled (unsuffixed), labelled fr, fr image + label, nothing at all,
    fr image only}, at least one with nothing and the list itext-bearing; ordinary or search() select."""
    shapes = {
        "u": lambda i: {("label", None): marker("C", i, "label", None)},
        "f": lambda i: {("label", "fr"): marker("C", i, "label", "fr")},
        "um": lambda i: {("label", None): marker("C", i, "label", None), ("image", "fr"): marker("C", i, "image", "fr")},
        "0": lambda i: {},
        "m": lambda i: {("audio", "fr"): marker("C", i, "audio", "fr")},
    }
    names = list(shapes)
    import itertools as it
    for combo in it.product(names, repeat=4):
        if "0" not in combo or not any(x in ("f", "um", "m") for x in combo):
            continue
        for search in (False, True):
            e = {"etype": "sel", "name": "q0", "parent": None, "list": "l0", "seltype": "select_one",
                 "cells": {("label", None): "QL0"}}
            if search:
                e["appearance"] = "search('crops')"
            choices = [{"list": "l0", "name": f"o{i}", "cells": shapes[sh](i)} for i, sh in enumerate(combo)]
            yield {"style": "::", "elems": [e], "choices": choices}


def ref_message_family():
    """Directed family: bind messages with a ${reference} (they live in itext, filed under the *form's* default language when
    unsuffixed) x message kind x {unsuffixed only, fr only, unsuffixed + fr} x default language {none, setting, argument,
    unused language} x a translated or untranslated label next to it."""
    for kind in ("constraint_message", "required_message"):
        for cols in ((None,), ("fr",), (None, "fr")):
            for dl in (None, ("s", "fr"), ("a", "de"), ("s", "xx")):
                for lab in ((None,), (None, "de")):
                    cells = {("label", l): marker("S", 0, "label", l) for l in lab}
                    for c in cols:
                        cells[(kind, c)] = marker("S", 0, kind, c) + " ${q1}"
                    elems = [{"etype": "q", "name": "q0", "parent": None, "qtype": "integer", "cells": cells},
                             {"etype": "q", "name": "q1", "parent": None, "qtype": "text", "cells": {("label", None): "QL1"}}]
                    form = {"style": "::", "elems": elems, "choices": []}
                    if dl:
                        form["dl_setting" if dl[0] == "s" else "dl_arg"] = dl[1]
                    yield form


def same_name_family():
    """Directed family: the same element name in different groups (legal while unreferenced) — every one of them carrying media
    and/or translated cells.  Layouts: top-level q + g0/q; g0/q + g1/q; g0/q + g1/q + top-level q.  Cell shapes per
    occurrence ∈ {unsuffixed image, fr image + label, fr label + unsuffixed hint, fr audio + en label}."""
    shapes = {
        "mi": lambda i: {("label", None): marker("S", i, "label", None), ("image", None): marker("S", i, "image", None)},
        "mf": lambda i: {("label", None): marker("S", i, "label", None), ("image", "fr"): marker("S", i, "image", "fr")},
        "lf": lambda i: {("label", "fr"): marker("S", i, "label", "fr"), ("hint", None): marker("S", i, "hint", None)},
        "af": lambda i: {("label", "en"): marker("S", i, "label", "en"), ("audio", "fr"): marker("S", i, "audio", "fr")},
    }
    import itertools as it
    layouts = [(None, "g0"), ("g0", "g1"), ("g0", "g1", None)]
    for lay in layouts:
        for combo in it.product(list(shapes), repeat=len(lay)):
            for gname in ("q", "grp"):
                elems, seen_groups, i = [], [], 0
                # grouped occurrences first (each group closed before the next), the top-level one last
                order = [p for p in lay if p is not None] + [p for p in lay if p is None]
                shp = dict(zip(order, combo)) if len(set(order)) == len(order) else None
                for parent, sh in zip(order, combo):
                    if parent is not None:
                        glabel = {("label", None): marker("S", 10 + i, "label", None)}
                        if gname == "grp" and i == 0:
                            glabel[("image", "fr")] = marker("S", 10 + i, "image", "fr")
                        elems.append({"etype": "g", "name": parent, "parent": None, "cells": glabel})
                    elems.append({"etype": "q", "name": "same", "parent": parent, "qtype": "text", "cells": shapes[sh](i)})
                    i += 1
                yield {"style": "::", "elems": elems, "choices": []}


def long_list_family():
    """Directed family: long choice lists whose only translated / media choice comes late (boundary sizes around 100, and
    a late row in a longer list); every other choice has a plain label."""
    combos = [(n, late, feat) for n, late in ((101, 100), (150, 149), (99, 98), (100, 99), (150, 100), (120, 60))
              for feat in ("label_fr", "image", "audio_fr")]
    # the two boundary shapes every run starts with: first row past 100 translated; last row of a long list with media
    combos = [(101, 100, "label_fr"), (150, 149, "image")] + [c for c in combos if c not in ((101, 100, "label_fr"), (150, 149, "image"))]
    for n, late, feat in combos:
        if True:
            choices = []
            for i in range(n):
                cells = {("label", None): marker("C", i, "label", None)}
                if i == late:
                    if feat == "label_fr":
                        cells[("label", "fr")] = marker("C", i, "label", "fr")
                    elif feat == "image":
                        cells[("image", None)] = marker("C", i, "image", None)
                    else:
                        cells[("audio", "fr")] = marker("C", i, "audio", "fr")
                choices.append({"list": "l0", "name": f"o{i}", "cells": cells})
            e = {"etype": "sel", "name": "q0", "parent": None, "list": "l0", "seltype": "select_one",
                 "cells": {("label", None): "QL0"}}
            yield {"style": "::", "elems": [e], "choices": choices}


def xlsx_of_case(case: dict, noise_seed: int) -> bytes:
    """The case as an .xlsx workbook (openpyxl, in memory) with content-neutral layout noise: unnamed spacer columns between
    the named ones (empty or whitespace-only header, empty cells), trailing whitespace-only header cells, blank rows between
    data rows.  Deterministic in `noise_seed`."""
    import io
    import random as _r

    import openpyxl

    rng = _r.Random(noise_seed)
    wb = openpyxl.Workbook()
    wb.remove(wb.active)

    def sheet(name, cols, rows, blank_rows=True):
        ws = wb.create_sheet(name)
        pos, c = {}, 1
        for h in cols:
            while rng.random() < 0.3:  # spacer column(s) before this one
                if rng.random() < 0.3:
                    ws.cell(row=1, column=c, value="  ")
                c += 1
            pos[h] = c
            ws.cell(row=1, column=c, value=h)
            c += 1
        for _ in range(rng.randint(0, 2)):  # trailing empty columns
            ws.cell(row=1, column=c, value=" ")
            c += 1
        r = 2
        for row in rows:
            while blank_rows and rng.random() < 0.15:  # blank row (the settings sheet reads its first row only: none there)
                r += 1
            for h, v in row.items():
                ws.cell(row=r, column=pos[h], value=v)
            r += 1

    sheet("survey", case["survey_cols"], case["survey"])
    if case["choices"] or case["choices_cols"]:
        sheet("choices", case["choices_cols"], case["choices"])
    if case["settings"]:
        sheet("settings", list(case["settings"]), [case["settings"]], blank_rows=False)
    buf = io.BytesIO()
    wb.save(buf)
    return buf.getvalue()
