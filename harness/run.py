"""Entry point: ./check Cxx --tier quick|thorough [--seed N] [--replay path]"""
import importlib
import sys

if __name__ == "__main__":
    if len(sys.argv) < 2:
        print("usage: check Cxx [--tier quick|thorough] [--seed N] [--replay path]", file=sys.stderr)
        sys.exit(2)
    prop = sys.argv[1].upper()
    try:
        mod = importlib.import_module(f"props.{prop.lower()}")
    except ModuleNotFoundError as e:
        print(f"no check for {prop}: {e}", file=sys.stderr)
        sys.exit(2)
    sys.exit(mod.main(sys.argv[2:]))
