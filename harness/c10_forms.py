"""Form generator and XForm observation for C10 (defaults and triggered calculations).

A form is generated as a *tree* (questions / groups / repeats); it is flattened to survey rows for the
implementation and passed as a tree to the Lean model (`defaults.model`).
"""

from __future__ import annotations

import re
import xml.etree.ElementTree as ET

from formobs import NS, local

JR_TEMPLATE = "{http://openrosa.org/javarosa}template"

# type cell, type name after xls2json (self.type), has a body control
TYPES = [
    ("text", "text"), ("integer", "integer"), ("decimal", "decimal"), ("date", "date"), ("dateTime", "dateTime"),
    ("datetime", "datetime"), ("time", "time"), ("geopoint", "geopoint"), ("geotrace", "geotrace"),
    ("geoshape", "geoshape"), ("note", "note"), ("barcode", "barcode"), ("acknowledge", "acknowledge"),
    ("select_one L", "select one"), ("select_multiple L", "select all that apply"),
    ("calculate", "calculate"), ("hidden", "hidden"), ("string", "string"), ("int", "int"), ("q date", "q date"),
    ("file", "file"), ("rank L", "rank"),
]
CTL_TAGS = {"input", "select", "select1", "upload", "trigger", "range", "odk:rank", "osm"}


def type_table():
    """facts of the implementation's question type table (data only): name -> (has control, has bind)"""
    from pyxform.question_type_dictionary import QUESTION_TYPE_DICT

    return {t: ((e.get("control") or {}).get("tag") in CTL_TAGS, "bind" in e) for t, e in QUESTION_TYPE_DICT.items()}


_TT = None


def has_ctl(tname: str) -> bool:
    global _TT
    if _TT is None:
        _TT = type_table()
    return _TT.get(tname, (True, True))[0]


def enumerable_types():
    """every type of the type table that can be typed into the type cell as is (selects are covered through
    `select_one L` …; aliased spellings are renamed by xls2json; externals have no node; audit lives in meta;
    background-geopoint needs a trigger)"""
    global _TT
    if _TT is None:
        _TT = type_table()
    from pyxform import aliases

    skip = set(aliases._type_alias_map) | {"audit", "xml-external", "csv-external", "background-geopoint", "calculate"}
    return [t for t in _TT if t not in skip and "select" not in t and t != "rank"]


HYPHEN_DATA_TYPES = {"date", "dateTime", "geopoint", "geotrace", "geoshape"}


def data_type(tname: str) -> str:
    """the name under which the hyphen rule of default_is_dynamic is meant ("data types which are likely to have
    non-dynamic defaults containing a hyphen"): the bind type of the type-table entry when it is one of those
    data types, else the type name itself"""
    from pyxform.question_type_dictionary import QUESTION_TYPE_DICT

    bt = (QUESTION_TYPE_DICT.get(tname, {}).get("bind") or {}).get("type")
    return bt if bt in HYPHEN_DATA_TYPES else tname


def alias_texts():
    """cell texts that some alias table of the pipeline treats specially (data read from the implementation's tables):
    the yes/no/true/false spellings of aliases.BINDING_CONVERSIONS and aliases.yes_no, plus numbers-as-text"""
    from pyxform import aliases

    out = list(aliases.BINDING_CONVERSIONS) + [k for k in aliases.yes_no if isinstance(k, str)] + ["1", "0", "5", "true()", "false()", "yes()"]
    seen, res = set(), []
    for x in out:
        if x and x not in seen:
            seen.add(x)
            res.append(x)
    return res


def bind_conv(v):
    """what xml_bindings writes for a convertible bind attribute (table data of the implementation)"""
    from pyxform import aliases

    return aliases.BINDING_CONVERSIONS.get(v, v)


def image_default(tname, d):
    """harness copy of xls2json.process_image_default (photo rows only)"""
    if tname == "photo" and d and "jr://images/" not in d:
        return "jr://images/" + d
    return d


NO_CTL = {"calculate"}  # types the generator treats as "usually unlabelled"; control facts come from has_ctl()
VISIBLE_TYPES = [t for t in TYPES if t[1] != "calculate" and t[1] != "hidden"]

# default texts by class (the property's quantifier)
D_LITERAL = ["abc", "hello world", "yes", "a-b", "x.y", "A_1", "été", "no way", "a b c", "true", "mod", "div", "a:b", "q1"]
D_DATE = ["2020-01-01", "2021-12-31", "-2020-01-01", "2020-01-01T10:00:00", "2020-01-01T10:00:00Z", "2020-01-01T10:00:00+05:30",
          "2020-01-01T10:00:00-05:30", "10:30:00", "10:30:00Z", "10:30:00-02:00", "2020-1-1", "2020-01-aa", "2020-01-01 10:00:00", "2020-01"]
D_NUMBER = ["5", "3.14", ".5", "0", "12.", "1000000", "007"]
D_NEGATIVE = ["-1", "-2.5", "-.5", "- 1", "-a", "-", "--1", "1 -2", "12.3 -45.6 0 0", "12.3 -45.6", "1 2;3 4", "-1.5 -2.5 0 0;-1 -2 0 0"]
D_CALL = ["now()", "today()", "concat('a','b')", "uuid()", "once(random())", "f(", "a:b(1)", "if(1 = 1, 'a', 'b')", "string-length('x')", "f (x)", "true()"]
D_ARITH = ["1 + 1", "2*3", "7 div 2", "5 mod 2", "3 - 1", "a - b", "1|2", "1+1", "2 -1", "2- 1", "a div b", "a  div b", "x mod", "1 - today()",
           "2020-01-01 + 1", "today() - 1", "* ", "a + 'b'"]
D_QUOTED = ["'a+b'", '"x(y)"', "'it''s'", "'${nope'", "'-'", "'a' - 'b'", "'unterminated + 1"]
D_TRICKY = ["a(b", "a [1]", "a[1]", "x and y", "x or y", "http://a.b/c", "jr://images/a.png", "<=", "a <= b", "a != b", "../x", "./x", "/data/x",
            "a,b", "[]{}", "a]", "$", "{x}", "a}", "#", "50%", "a@b.c", "1e5", "x = 1"]
REF_TEMPLATES = ["${%s}", "${%s} + 1", "concat(${%s}, 'a')", "${%s}", "string(${%s})", "${%s} div 2", "'${%s}'", "-${%s}"]


def clean(v: str) -> str:
    """the harness's own copy of xls2json's cell cleaning for survey cells (strip, collapse spaces)"""
    return re.sub(" +", " ", v.strip())


class Gen:
    def __init__(self, rng, big=False):
        self.rng = rng
        self.n = 0
        self.big = big
        self.questions = []  # dicts in document order
        self.sections = []
        self.names = []

    def name(self, prefix):
        """Names are unique.  A share of them is *prefix-related* to an earlier element of any kind (a repeat
        `r3` next to a question `r3_x` / `r3s` / `r32`, a question extending a group's name, …): code that
        compares xpaths as raw strings instead of by segment confuses such neighbours."""
        self.n += 1
        r = self.rng.random()
        if self.names and r < 0.22:
            base = self.rng.choice(self.names)
            for suffix in self.rng.sample(["_x", "s", "2", "_count", ".z", "-y", "_" + str(self.n), "x", "0"], 9):
                cand = base + suffix
                if cand not in self.names:
                    self.names.append(cand)
                    return cand
        suffix = "" if r < 0.8 else self.rng.choice(["_x", "-y", ".z", "_count", "_other"])
        nm = f"{prefix}{self.n}{suffix}"
        while nm in self.names:
            self.n += 1
            nm = f"{prefix}{self.n}{suffix}"
        self.names.append(nm)
        return nm

    def default_text(self, ref_names):
        rng = self.rng
        pools = [D_LITERAL, D_DATE, D_NUMBER, D_NEGATIVE, D_CALL, D_ARITH, D_QUOTED, D_TRICKY]
        k = rng.random()
        if k < 0.12 and ref_names:
            return "ref", rng.choice(REF_TEMPLATES) % rng.choice(ref_names)
        if k < 0.17 and k >= 0.15:
            return "alias", rng.choice(alias_texts())
        if k < 0.15:
            import c10_lexgen

            for _ in range(20):
                s = clean(c10_lexgen.token_string(rng))
                if s and "${" not in s and all(32 <= ord(c) < 127 for c in s):
                    return "random", s
        i = rng.randrange(len(pools))
        cls = ["literal", "date", "number", "negative", "call", "arith", "quoted", "tricky"][i]
        return cls, rng.choice(pools[i])

    def question(self, ref_names):
        rng = self.rng
        cell, tname = rng.choice(TYPES)
        if rng.random() < 0.12:
            cell = tname = rng.choice(enumerable_types())
        q = {"k": "q", "name": self.name("q"), "cell": cell, "type": tname, "default": "", "calc": "", "trigger": "",
             "labelled": True, "dclass": "none"}
        if not has_ctl(tname):
            q["labelled"] = rng.random() < 0.15
        elif rng.random() < 0.04:
            q["labelled"] = False
        if rng.random() < 0.7:
            q["dclass"], q["default"] = self.default_text(ref_names)
            q["default"] = clean(q["default"])
        if tname == "calculate":
            if rng.random() < 0.8 or not q["default"]:
                q["calc"] = rng.choice(["1 + 1", "now()", "'x'", "concat('a', 'b')", "5"] + (["${%s} + 1" % rng.choice(ref_names)] if ref_names else []))
                if rng.random() < 0.25:
                    q["calc"] = rng.choice(alias_texts())
            if rng.random() < 0.03:
                q["calc"] = ""
        elif rng.random() < 0.1:
            q["calc"] = rng.choice(["1 + 1", "now()", "'x'"] + (["${%s}" % rng.choice(ref_names)] if ref_names else []))
            if rng.random() < 0.25:
                q["calc"] = rng.choice(alias_texts())
            if rng.random() < 0.5:
                q["labelled"] = False
        return q

    def kids(self, depth, max_depth, ref_names):
        rng = self.rng
        out = []
        n = rng.randint(1, 4 if depth else (7 if self.big else 5))
        for _ in range(n):
            r = rng.random()
            if depth < max_depth and r < 0.22:
                nm = self.name("g")
                el = {"k": "grp", "name": nm, "kids": None}
                self.sections.append(el)
                el["kids"] = self.kids(depth + 1, max_depth, ref_names)
                out.append(el)
            elif depth < max_depth and r < 0.44:
                nm = self.name("r")
                el = {"k": "rep", "name": nm, "kids": None}
                self.sections.append(el)
                el["kids"] = self.kids(depth + 1, max_depth, ref_names)
                out.append(el)
            else:
                q = self.question(ref_names)
                out.append(q)
                self.questions.append(q)
                if q["type"] not in ("calculate",) and q["labelled"]:
                    ref_names.append(q["name"])
        return out

    def add_triggers(self):
        """every trigger/target pairing: trigger is a visible question / select / in a repeat / hidden /
        a group / several refs / prose; target is a calculate, a typed calculate, a background-geopoint"""
        rng = self.rng
        qs = self.questions
        if not qs:
            return
        visible = [q for q in qs if has_ctl(q["type"]) and q["labelled"] and not q["calc"]]
        for q in qs:
            if rng.random() > (0.5 if q["type"] == "calculate" or q["calc"] else 0.12):
                continue
            if q["trigger"]:
                continue
            r = rng.random()
            others = [v for v in visible if v is not q]
            if r < 0.7 and others:
                t = rng.choice(others)
                q["trigger"] = "${%s}" % t["name"]
                q["tclass"] = "question"
            elif r < 0.76 and len(others) >= 2:
                a, b = rng.sample(others, 2)
                q["trigger"] = rng.choice(["${%s}, ${%s}", "${%s} ${%s}", "${%s},${%s}"]) % (a["name"], b["name"])
                q["tclass"] = "two-refs"
            elif r < 0.81 and others:
                q["trigger"] = rng.choice(["x ${%s}", "${%s} x", "(${%s})", "${%s}.", "${%s} + 1"]) % rng.choice(others)["name"]
                q["tclass"] = "prose"
            elif r < 0.86 and self.sections:
                q["trigger"] = "${%s}" % rng.choice(self.sections)["name"]
                q["tclass"] = "section"
            elif r < 0.91:
                hidden = [h for h in qs if h is not q and not has_ctl(h["type"]) and h["type"] != "calculate" and not h["calc"] and not h["trigger"]]
                calcs = [h for h in qs if h is not q and (h["type"] == "calculate" or (h["calc"] and not h["labelled"]))]
                pool = hidden + (calcs if rng.random() < 0.4 else [])
                if pool:
                    q["trigger"] = "${%s}" % rng.choice(pool)["name"]
                    q["tclass"] = "hidden"
            elif r < 0.94:
                q["trigger"] = rng.choice(["${nonexistent}", "abc", "trigger me", "${ }"])
                q["tclass"] = "invalid"
            if q["trigger"] and rng.random() < 0.35:
                # background-geopoint target
                q["cell"] = q["type"] = "background-geopoint"
                q["calc"] = "" if rng.random() < 0.9 else "1 + 1"
                q["default"] = ""
                q["dclass"] = "none"
                q["labelled"] = rng.random() < 0.3

    def tree(self):
        rng = self.rng
        max_depth = rng.choice([0, 1, 2, 2, 3, 4 if self.big else 3])
        els = self.kids(0, max_depth, [])
        self.add_triggers()
        return els


def rows_of(els, out=None):
    out = [] if out is None else out
    for e in els:
        if e["k"] == "q":
            row = {"type": e["cell"], "name": e["name"]}
            if e["labelled"]:
                row["label"] = "L " + e["name"]
            if e["default"]:
                row["default"] = e["default"]
            if e["calc"]:
                row["calculation"] = e["calc"]
            if e["trigger"]:
                row["trigger"] = e["trigger"]
            out.append(row)
        else:
            kw = "group" if e["k"] == "grp" else "repeat"
            out.append({"type": "begin " + kw, "name": e["name"], "label": "S " + e["name"]})
            rows_of(e["kids"], out)
            out.append({"type": "end " + kw})
    return out


def form_of(els):
    rows = rows_of(els)
    form = {"survey": rows, "survey_cols": ["type", "name", "label", "default", "calculation", "trigger"]}
    if any(" L" in r.get("type", "") for r in rows):
        form["choices"] = [{"list_name": "L", "name": "c1", "label": "C1"}, {"list_name": "L", "name": "c2", "label": "C2"}]
    return form


def model_els(els):
    out = []
    for e in els:
        if e["k"] == "q":
            d = e["default"]
            out.append({"k": "q", "name": e["name"], "type": e["type"], "default": d, "calc": e["calc"], "trigger": e["trigger"],
                        "labelled": bool(e["labelled"])})
        else:
            out.append({"k": e["k"], "name": e["name"], "kids": model_els(e["kids"])})
    return out


def walk(els, pre="/data", reps=()):
    """(question dict, path, tuple of repeat-ancestor paths outermost first)"""
    for e in els:
        p = pre + "/" + e["name"]
        if e["k"] == "q":
            yield e, p, reps
        else:
            yield from walk(e["kids"], p, reps + ((p,) if e["k"] == "rep" else ()))


# --------------------------------------------------------------------------- observation of an XForm

CONTROL_TAGS = {"input", "select", "select1", "upload", "trigger", "range", "rank"}
SET_TAGS = {"setvalue", "setgeopoint"}


def qual(el):
    t = local(el.tag)
    return "odk:setgeopoint" if t == "setgeopoint" else t


def observe(xform: str) -> dict:
    """leaves [path, in_template, text]; sets [loc|None, tag, ref, event, value]; trigs [ctl, tag, ref, event, value];
    binds {nodeset: calculate|None}; stray = set-nodes that are neither in model, a repeat nor a control"""
    root = ET.fromstring(xform)
    model = root.find("h:head/x:model", NS)
    body = root.find("h:body", NS)
    prim = list(model.find("x:instance", NS))[0]
    leaves = []

    def rec(el, pre, in_t):
        p = pre + "/" + local(el.tag)
        t = in_t or (JR_TEMPLATE in el.attrib)
        kids = list(el)
        if not kids:
            leaves.append([p, t, el.text or ""])
        for k in kids:
            rec(k, p, t)

    rec(prim, "", False)
    sets, trigs, stray = [], [], []
    for el in model:
        if local(el.tag) in SET_TAGS:
            sets.append([None, qual(el), el.get("ref"), el.get("event"), el.get("value")])
    parent = {c: p for p in body.iter() for c in p}
    for el in body.iter():
        if local(el.tag) in SET_TAGS:
            par = parent[el]
            pt = local(par.tag)
            rec_ = [qual(el), el.get("ref"), el.get("event"), el.get("value")]
            if pt == "repeat":
                sets.append([par.get("nodeset")] + rec_)
            elif pt in CONTROL_TAGS:
                trigs.append([par.get("ref")] + rec_)
            else:
                stray.append([pt] + rec_)
    binds = {}
    for b in model.findall("x:bind", NS):
        binds.setdefault(b.get("nodeset"), []).append(b.get("calculate"))
    ctls = [[local(el.tag), el.get("ref")] for el in body.iter() if local(el.tag) in CONTROL_TAGS and el.get("ref")]
    return {"leaves": leaves, "sets": sets, "trigs": trigs, "binds": binds, "stray": stray, "ctls": ctls}
