"""
Form generator: mostly-valid XLSForms as {sheet: [row dicts]} built from an abstract tree.
Every random choice derives from the `random.Random` passed in (seeded from VERIF_SEED).
"""

from __future__ import annotations

import random

SIMPLE_TYPES = [
    "text", "integer", "decimal", "date", "time", "dateTime", "note", "geopoint", "geotrace",
    "geoshape", "barcode", "image", "audio", "video", "file", "acknowledge", "int", "string",
    "trigger", "background-audio", "hidden", "xml-external", "csv-external",
]
META_TYPES = ["start", "end", "today", "deviceid", "username", "phonenumber", "email"]
NAME_POOL = [
    "a", "b", "c", "q1", "q2", "age", "name_", "r", "r2", "r_count", "ra", "Name", "grp", "g1", "g2",
    "rep", "rep1", "meta_", "other_", "x_other", "t", "abcde_r2", "note1", "city", "a-b", "a.b", "_u",
    "généré", "n0", "w", "v", "kids", "kid", "house", "hh", "z9", "y_", "lbl", "hint_q", "guid",
]
ADV_ATOMS = [
    "<", ">", "&", '"', "'", "]]>", "&amp;", "&lt;", "<!--", "-->", "<b>", "</b>", "{", "}", "$", "#",
    "é", "ß", "中", "ع", "\U0001F600", "  ", " ", "a", "b", "Z", "0", "=", "/", "\\", "|", ";", ":", ",",
    "?", "*", "(", ")", "[", "]", "&#38;", "&#x3c;", "<![CDATA[", "%", "+", "-", ".", "_", "word", "Label",
]
PLAIN_ATOMS = ["a", "b", "Question", "Label", "word", " ", "x", "1", "?", "é", "Z"]


def adv_text(rng: random.Random, maxlen: int = 6, plain: bool = False) -> str:
    atoms = PLAIN_ATOMS if plain else ADV_ATOMS
    n = rng.randint(1, maxlen)
    s = "".join(rng.choice(atoms) for _ in range(n))
    if not s.strip():
        s += "t"
    return s


class Node:
    def __init__(self, kind, name, typ=None):
        self.kind = kind  # q | group | repeat
        self.name = name
        self.type = typ
        self.kids = []
        self.row = {}
        self.parent = None

    def path(self):
        p, n = [], self
        while n is not None:
            p.append(n.name)
            n = n.parent
        return list(reversed(p))


class FormGen:
    def __init__(self, rng: random.Random, **k):
        self.rng = rng
        self.k = {
            "n": (1, 10),
            "max_depth": 3,
            "p_group": 0.15,
            "p_repeat": 0.12,
            "langs": [],
            "plain_text": True,
            "p_select": 0.2,
            "p_logic": 0.3,
            "p_ref_in_label": 0.1,
            "p_hint": 0.3,
            "p_default": 0.1,
            "p_settings": 0.3,
            "types": SIMPLE_TYPES,
            "p_meta": 0.05,
            "p_or_other": 0.0,
            "p_repeat_count": 0.3,
            "adversarial_names": True,
        }
        self.k.update(k)
        self.used_names = set()
        self.counter = 0
        self.questions = []  # Node list in document order
        self.lists = {}

    # ---- names
    def fresh_name(self) -> str:
        rng = self.rng
        for _ in range(20):
            n = rng.choice(NAME_POOL) if self.k["adversarial_names"] and rng.random() < 0.7 else f"q{self.counter}"
            self.counter += 1
            if n.lower() not in self.used_names:
                self.used_names.add(n.lower())
                return n
        self.counter += 1
        n = f"n{self.counter}_{rng.randint(0, 999)}"
        self.used_names.add(n.lower())
        return n

    def text(self) -> str:
        return adv_text(self.rng, 5, plain=self.k["plain_text"])

    # ---- tree
    def build(self):
        rng = self.rng
        root = Node("root", "data")
        self.used_names.add("data")
        n = rng.randint(*self.k["n"])
        stack = [root]
        for _ in range(n):
            cur = stack[-1]
            r = rng.random()
            depth = len(stack) - 1
            if depth < self.k["max_depth"] and r < self.k["p_group"]:
                g = Node("group", self.fresh_name())
                g.parent = cur
                cur.kids.append(g)
                stack.append(g)
            elif depth < self.k["max_depth"] and r < self.k["p_group"] + self.k["p_repeat"]:
                g = Node("repeat", self.fresh_name())
                g.parent = cur
                cur.kids.append(g)
                stack.append(g)
            else:
                q = self.question()
                q.parent = cur
                cur.kids.append(q)
                self.questions.append(q)
                if len(stack) > 1 and rng.random() < 0.3:
                    stack.pop()
        # no empty groups (known crash class F13): give every empty section one question
        def fill(nd):
            for kd in nd.kids:
                if kd.kind in ("group", "repeat"):
                    if not kd.kids:
                        q = self.question()
                        q.parent = kd
                        kd.kids.append(q)
                        self.questions.append(q)
                    fill(kd)
        fill(root)
        if not root.kids:
            q = self.question()
            q.parent = root
            root.kids.append(q)
            self.questions.append(q)
        return root

    def question(self) -> Node:
        rng = self.rng
        if rng.random() < self.k["p_select"]:
            typ = rng.choice(["select_one", "select_multiple", "rank"] if rng.random() < 0.9 else ["select_one"])
            ln = self.list_name()
            q = Node("q", self.fresh_name(), f"{typ} {ln}")
            q.list = ln
            return q
        if rng.random() < self.k["p_meta"]:
            return Node("q", self.fresh_name(), rng.choice(META_TYPES))
        return Node("q", self.fresh_name(), rng.choice(self.k["types"]))

    def list_name(self) -> str:
        rng = self.rng
        if self.lists and rng.random() < 0.4:
            return rng.choice(list(self.lists))
        ln = rng.choice(["yn", "colors", "l1", "l2", "list_a", "opts", "cl"]) + (str(len(self.lists)) if self.lists else "")
        items = []
        for i in range(rng.randint(1, 5)):
            items.append({"list_name": ln, "name": rng.choice(["a", "b", "c", "x", "y", "n1", "n2", "opt"]) + str(i)})
        self.lists[ln] = items
        return ln

    # ---- cells
    def ref_targets(self, node):
        return [
            q for q in self.questions
            if q is not node and q.kind == "q" and q.type not in ("xml-external", "csv-external")
        ]

    def expr(self, node) -> str:
        rng = self.rng
        ts = self.ref_targets(node)
        forms = [". > 0", "true()", "1 + 1", "string-length(.) < 10"]
        if ts:
            t = rng.choice(ts).name
            forms += [f"${{{t}}} > 3", f"${{{t}}} = 'x'", f"concat(${{{t}}}, 'y')", f"not(${{{t}}} != '')",
                      f"${{{t}}} + 1 div 2", f"if(${{{t}}} = 1, 'a', 'b')"]
            if len(ts) > 1:
                t2 = rng.choice(ts).name
                forms.append(f"${{{t}}} > ${{{t2}}}")
        return rng.choice(forms)

    def label_cols(self, row, node, base="label"):
        rng = self.rng
        langs = self.k["langs"]

        def txt():
            s = self.text()
            if rng.random() < self.k["p_ref_in_label"]:
                ts = self.ref_targets(node)
                if ts:
                    s = s + " ${" + rng.choice(ts).name + "} " + self.text()
            return s

        if not langs:
            row[base] = txt()
        else:
            for lg in langs:
                if rng.random() < 0.8:
                    row[f"{base}::{lg}"] = txt()
            if not any(k.startswith(base + "::") for k in row):
                row[f"{base}::{langs[0]}"] = txt()

    def rows(self, root):
        rng = self.rng
        out = []

        def emit(nd):
            for kd in nd.kids:
                if kd.kind in ("group", "repeat"):
                    row = {"type": f"begin {kd.kind}", "name": kd.name}
                    if rng.random() < 0.8:
                        self.label_cols(row, kd)
                    if rng.random() < self.k["p_logic"] * 0.5:
                        row["relevant"] = self.expr(kd)
                    if kd.kind == "repeat" and rng.random() < self.k["p_repeat_count"]:
                        row["repeat_count"] = rng.choice(["3", "2 + 1"])
                    kd.row = row
                    out.append(row)
                    emit(kd)
                    out.append({"type": f"end {kd.kind}"})
                else:
                    if kd.type in ("xml-external", "csv-external") and not self.k.get("external_in_repeat"):
                        a = kd.parent
                        while a is not None:
                            if a.kind == "repeat":
                                kd.type = "text"  # known crash class F32: external instance inside a repeat
                                break
                            a = a.parent
                    row = {"type": kd.type, "name": kd.name}
                    base = kd.type.split(" ")[0]
                    if base in ("calculate",):
                        row["calculation"] = self.expr(kd)
                    elif base in ("hidden", "xml-external", "csv-external", "background-audio") or base in META_TYPES:
                        if base == "hidden" and rng.random() < 0.5:
                            row["default"] = "x"
                    else:
                        self.label_cols(row, kd)
                        if rng.random() < self.k["p_hint"]:
                            self.label_cols(row, kd, "hint")
                        if rng.random() < self.k["p_logic"]:
                            row["relevant"] = self.expr(kd)
                        if rng.random() < self.k["p_logic"] and base not in ("note",):
                            row["constraint"] = self.expr(kd)
                            if rng.random() < 0.5:
                                row["constraint_message"] = self.text()
                        if rng.random() < self.k["p_logic"]:
                            row["required"] = rng.choice(["yes", "true()", "no", self.expr(kd)])
                        if rng.random() < self.k["p_logic"] * 0.3:
                            row["read_only"] = rng.choice(["yes", "no", "true()"])
                        if rng.random() < self.k["p_default"] and base in ("text", "integer", "decimal", "string", "int"):
                            row["default"] = rng.choice(["1", "42", "abc", "now()", "today()", "-1", "1 + 2"]) if base == "text" else rng.choice(["1", "42", "-1", "1 + 2"])
                    kd.row = row
                    out.append(row)

        emit(root)
        return out

    def form(self) -> dict:
        root = self.build()
        survey = self.rows(root)
        form = {"survey": survey}
        if self.lists:
            ch = []
            for ln, items in self.lists.items():
                for it in items:
                    row = dict(it)
                    langs = self.k["langs"]
                    if not langs:
                        row["label"] = self.text()
                    else:
                        for lg in langs:
                            row[f"label::{lg}"] = self.text()
                    ch.append(row)
            form["choices"] = ch
        if self.rng.random() < self.k["p_settings"]:
            st = {}
            if self.rng.random() < 0.7:
                st["form_title"] = self.text()
            if self.rng.random() < 0.7:
                st["form_id"] = self.rng.choice(["my_form", "f1", "id-2"])
            if self.rng.random() < 0.5:
                st["version"] = self.rng.choice(["1", "2024010101", "v3"])
            if self.k["langs"] and self.rng.random() < 0.5:
                st["default_language"] = self.rng.choice(self.k["langs"])
            if st:
                form["settings"] = [st]
        self.root = root
        return form


def gen_form(rng: random.Random, **k) -> dict:
    return FormGen(rng, **k).form()
